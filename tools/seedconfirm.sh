#!/bin/bash
# Confirms a seeded change in a scratch worktree and stores it under
# /verif/seeded/<name>/ :  seedconfirm.sh <worktree> <name>
export GOFLAGS=-mod=mod GOPROXY=off GOSUMDB=off GOTOOLCHAIN=local
w=$1; name=$2
out=/verif/seeded/$name
mkdir -p $out
cd $w || exit 2
git diff > $out/patch.diff
if [ ! -s $out/patch.diff ]; then echo "no change"; exit 2; fi
demo_cmd() { if [ -f DEMO/go.mod ]; then (cd DEMO && cp -n ../go.sum . 2>/dev/null; go test -vet=off -count=1 ./... 2>&1); else go test -vet=off -count=1 ./DEMO/ 2>&1; fi; }
echo "== build"; go build ./... && go build -tags verif ./... || { echo BUILD-FAILED; exit 1; }
echo "== existing suite with the change"
pk=$(go list ./... | grep -v /DEMO)
go test -vet=off -count=1 $pk 2>&1 | tail -7 > $out/suite_with_change.txt; cat $out/suite_with_change.txt
grep -q FAIL $out/suite_with_change.txt && { echo SUITE-FAILS; exit 1; }
echo "== demo with the change (must fail)"
demo_cmd | tail -15 > $out/demo_with_change.txt; tail -4 $out/demo_with_change.txt
grep -q "^FAIL\|FAIL	" $out/demo_with_change.txt || { echo DEMO-DOES-NOT-FAIL; exit 1; }
echo "== demo without the change (must pass)"
git stash -q
demo_cmd | tail -6 > $out/demo_without_change.txt; r=$?
git stash pop -q
tail -3 $out/demo_without_change.txt
grep -q "^FAIL\|FAIL	" $out/demo_without_change.txt && { echo DEMO-FAILS-WITHOUT-CHANGE; exit 1; }
grep -q "^ok" $out/demo_without_change.txt || { echo DEMO-NOT-OK; exit 1; }
mkdir -p $out/demo; cp DEMO/*.go DEMO/README.md $out/demo/ 2>/dev/null; [ -f DEMO/go.mod ] && cp DEMO/go.mod $out/demo/
echo CONFIRMED
