#!/bin/sh
# Creates a scratch worktree of /repo with a stored seeded change applied:
#   seedapply.sh <name>   ->  /tmp/seed/<name>     (remove with: git -C /repo worktree remove --force /tmp/seed/<name>)
name=$1
mkdir -p /tmp/seed
git -C /repo worktree add -q --detach /tmp/seed/$name HEAD || exit 2
git -C /tmp/seed/$name apply /verif/seeded/$name/patch.diff || { echo "patch does not apply"; exit 1; }
echo /tmp/seed/$name
