#!/bin/sh
# Runs the given checks with several seeds on the unchanged tree and reports
# every run that did not exit 0 (flakiness / false-alarm hunt).
#   tools/sweep.sh "<ids>" <first seed> <last seed> [tier]
ids=$1; a=$2; b=$3; tier=${4:-quick}
cd "$(dirname "$0")/.."
s=$a
while [ $s -le $b ]; do
  for p in $ids; do
    out=$(VERIF_SEED=$s bin/check $p --tier $tier 2>&1)
    rc=$?
    if [ $rc -ne 0 ]; then echo "seed=$s prop=$p rc=$rc"; echo "$out" | grep -v "^note\|harness built" | head -5; 
      mkdir -p sweep-out; cp replays/$p-$s-*.json sweep-out/ 2>/dev/null; fi
  done
  s=$((s+1))
done
echo sweep-done
