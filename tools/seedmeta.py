#!/usr/bin/env python3
"""Writes seeded/<name>/meta.json and adds the row to DESIGN.md section 12.
usage: seedmeta.py <name> <file> <what> <needs> <caught_by ; separated> [<history>]"""
import json
import os
import sys

VERIF = os.path.dirname(os.path.dirname(os.path.abspath(__file__)))


def main():
    name, f, what, needs, caught = sys.argv[1:6]
    hist = sys.argv[6] if len(sys.argv) > 6 else "caught at once"
    prop = name.split("-")[0]
    m = {"prop": prop, "file": f, "what": what, "needs": needs, "caught_by": [c.strip() for c in caught.split(";")],
         "history": hist,
         "confirmed": {"by": "tools/seedconfirm.sh /tmp/mut/%s %s" % (name, name), "build": "go build ./... and -tags verif: ok",
                       "existing_suite_with_change": "pass (see suite_with_change.txt)",
                       "demo_with_change": "fails (demo_with_change.txt)",
                       "demo_without_change": "passes (demo_without_change.txt)"},
         "detection_cmd": "python3 tools/seedtest.py <worktree with patch applied> %s" % prop,
         "source": "independent sub-agent given only the property text, a scratch worktree, one-line descriptions of the "
                   "earlier seeded changes and a hint at untouched clauses",
         "base": "repository HEAD d0833bc"}
    json.dump(m, open(os.path.join(VERIF, "seeded", name, "meta.json"), "w"), indent=1)
    p = os.path.join(VERIF, "DESIGN.md")
    s = open(p).read()
    c = "; ".join(m["caught_by"])
    if hist != "caught at once":
        c += " — " + hist
    row = "| `%s` %s | %s | %s | %s |" % (name, what, prop, needs, c)
    anchor = "\nThe third batch (`-c`) was aimed"
    i = s.index(anchor)
    s = s[:i].rstrip("\n") + "\n" + row + "\n" + s[i:]
    open(p, "w").write(s)


if __name__ == "__main__":
    main()
