#!/bin/bash
# Re-runs the check of every stored seeded change against a scratch worktree
# carrying it (never /repo itself) and prints one line per change.
#   seedregress.sh [name ...]      (default: all of /verif/seeded)
cd /verif
names=${@:-$(ls -d seeded/*/ | xargs -n1 basename)}
for n in $names; do
  prop=$(python3 -c "import json;print(json.load(open('seeded/$n/meta.json'))['prop'])")
  w=$(sh tools/seedapply.sh $n | tail -1)
  if [ ! -d "$w" ]; then echo "$n APPLY-FAILED"; continue; fi
  echo -n "$n: "
  python3 tools/seedtest.py $w $prop
  git -C /repo worktree remove --force $w
done
rm -rf /tmp/seedruns
