#!/usr/bin/env python3
"""Runs checks against a scratch copy of the repository that carries a seeded
change:  seedtest.py <repo-dir> <ID> [<ID> ...]   (VERIF_REPO is pointed at the
copy; /repo itself is not touched). Prints one line per check."""
import os
import subprocess
import sys
import time

VERIF = os.path.dirname(os.path.dirname(os.path.abspath(__file__)))


def main():
    repo = os.path.abspath(sys.argv[1])
    ids = sys.argv[2:]
    tier = os.environ.get("VERIF_TIER", "quick")
    for p in ids:
        out = "/tmp/seedruns/" + os.path.basename(repo.rstrip("/"))
        os.makedirs(out, exist_ok=True)
        env = dict(os.environ, VERIF_REPO=repo, VERIF_EVIDENCE_DIR=out, VERIF_REPLAYS_DIR=out)
        t0 = time.time()
        r = subprocess.run([os.path.join(VERIF, "bin", "check"), p, "--tier", tier], env=env,
                           stdout=subprocess.PIPE, stderr=subprocess.PIPE, text=True)
        lines = [l for l in r.stdout.splitlines() if l.startswith("VIOLATION") or l.startswith("KNOWN")]
        why = sorted(set(l.split("(")[-1].rstrip(")") for l in lines if l.startswith("VIOLATION")))
        notes = [l for l in r.stderr.splitlines() if l.startswith("note:") or "INFRA" in l]
        print("%s rc=%d %.0fs %s %s" % (p, r.returncode, time.time() - t0, why, notes[:6]))
        sys.stdout.flush()


if __name__ == "__main__":
    main()
