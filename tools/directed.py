#!/usr/bin/env python3
"""Directed schedules: behaviours of the L1 models selected for coverage.

Random simulation (TLC -simulate) reaches the rare windows of the L1 models --
a receive that evaluates its select when both the context is done and the
stream has finished, a second response that arrives while the trailer is
being read, ... -- once in thousands of behaviours or never (in 500 random
behaviours of the client-streaming HttpStream model not one gets as far as the
single-response probe). This tool lets TLC do a breadth-first search instead,
once, offline: the model is explored under a VIEW that abstracts a state to
what the code's branches can depend on (program counters, context/done/error
flags, emptiness of the wires, budgets), so that TLC keeps one concrete
representative per abstract state; the state graph is dumped
(-dump dot,actionlabels); every edge is a real transition between real states,
and the first edge into a node is a breadth-first tree edge, so the tree path
to the source of an edge plus the edge is a genuine, shortest behaviour.
Every edge is classified as

    (action, argument, what the acting goroutine can see before, API result after)

and one behaviour is kept per class (minus those that are prefixes of others).
The selected behaviours (lists of actions) are stored in
/verif/spec/directed/<Model>-<kind>.json together with a hash of the
specification they were generated from; every family-A check replays them
against the current working tree of the repository (step by step through the
verifPoint gates, several times each because Go's select picks among ready
cases at random). They depend on the specification only, never on the code.

usage: directed.py [--model HttpStream|InprocStream|InprocUnary|all] [--cap N] [--check]
"""
import argparse
import glob
import hashlib
import json
import os
import re
import shutil
import sys

sys.path.insert(0, os.path.dirname(os.path.abspath(__file__)))
import vlib   # noqa: E402
import bgen   # noqa: E402

OUT = os.path.join(vlib.VERIF, "spec", "directed")

_hdr = re.compile(r'^\\\* <(\w+)(?:\(([^)]*)\))? line ')
_var = re.compile(r'^/\\ (\w+) = (.*)$')


def spec_hash(model):
    h = hashlib.sha256()
    for f in (model + ".tla",):   # behaviours are determined by the L1 module (L0 only judges them)
        h.update(open(os.path.join(vlib.VERIF, "spec", f), "rb").read())
    return h.hexdigest()[:16]


def parse_behaviour(text, wanted):
    """-> list of (action, arg, {var: text}) with the state AFTER the action."""
    out = []
    cur = None
    for line in text.splitlines():
        m = _hdr.match(line)
        if m:
            arg = m.group(2)
            if arg is not None:
                arg = arg.strip().strip('"')
            cur = (m.group(1), arg, {})
            out.append(cur)
            continue
        if cur is None:
            continue
        m = _var.match(line)
        if m and m.group(1) in wanted:
            cur[2][m.group(1)] = m.group(2)
    return out


def field(rec, name):
    m = re.search(r'\b%s \|-> ("?[^,\]]*"?)' % name, rec or "")
    return m.group(1).strip('"') if m else ""


# ---- per-model classification ------------------------------------------------

def _out(post):
    return (field(post.get("ev"), "n"), field(post.get("ev"), "k"), field(post.get("ev"), "cat"))


def _cdone(pre):
    return pre.get("cctx") != '"live"' or pre.get("icancel") == "TRUE"


# a step is classified by what its action can depend on: the program counter
# of the goroutine that takes it and the shared variables its guard and
# branches read (per group of actions), plus the API result it produces
def cls_http(act, arg, pre, post):
    pc = pre.get("pc")
    ctr = pre.get("ctr", "")
    if act in ("RecvCheckDone", "RecvSelect", "RecvProbe", "RecvWoken", "RecvSecond", "DeliverEval", "HeaderDone",
               "TrailerDo", "StartRecv", "StartHeader"):
        view = (field(pc, "cr"), pre.get("rdpc"), _cdone(pre), pre.get("done"), pre.get("rErr"),
                field(ctr, "set"), field(ctr, "st") not in ("0", ""), pre.get("hdErr"), pre.get("ready"))
    elif act in ("StartSend", "SendCheckDone", "SendLock", "SendWrite", "SendRet", "StartClose", "CloseDo", "CloseRet"):
        view = (field(pc, "cs"), pre.get("done"), pre.get("pipe"), pre.get("wErr"), pre.get("gone"), _cdone(pre))
    elif act in ("RtReply", "RtCancelled", "ReadFrame", "DeliverCtx", "ReaderFin", "Watcher", "ConnGone", "ConnBroken"):
        view = (pre.get("rdpc"), _cdone(pre), field(pc, "cr"), pre.get("pipe"), pre.get("reqEnd"), pre.get("rErr"),
                pre.get("localErr"), pre.get("respWire") == "<<>>", pre.get("respEnd"))
    elif act in ("Cancel",):
        view = (field(pc, "cr"), pre.get("rdpc"), field(pc, "cs"), field(pc, "h"), pre.get("done"))
    else:   # the handler and the tail of handleStream
        view = (field(pc, "h"), pre.get("reqEnd"), pre.get("reqWire") == "<<>>", pre.get("gone"), pre.get("wbroken"),
                pre.get("writeFailed"), pre.get("flushed"), pre.get("bodyShut"), pre.get("headersSent"))
    return (act, arg or "") + view + _out(post)


def cls_inproc(act, arg, pre, post):
    pc = pre.get("pc")
    cd = pre.get("cctx") != '"live"'
    if act in ("StartSend", "SendLock", "SendSelect", "SendRet", "StartClose", "CloseDo"):
        view = (field(pc, "cs"), field(pc, "cs2"), cd, pre.get("sprop"), pre.get("svrDone"), pre.get("svrExit"),
                pre.get("reqClosed"), pre.get("sendClosed"), pre.get("req") == "<<>>")
    elif act in ("StartHRecv", "HRecvSelect", "HRecvCheck"):
        view = (field(pc, "h"), cd, pre.get("sprop"), pre.get("reqClosed"), pre.get("req") == "<<>>")
    elif act in ("StartHeader", "HeaderLock", "HeaderSelect", "HeaderCheck", "TrailerDo", "StartRecv", "RecvLock",
                 "RecvPeeked", "RecvSelect", "RecvCheck"):
        view = (field(pc, "cr"), pre.get("cst"), cd, pre.get("respClosed"), pre.get("probe"), pre.get("resp") == "<<>>",
                pre.get("clast", "")[:12])
    elif act in ("Cancel", "Propagate"):
        view = (field(pc, "cr"), field(pc, "cs"), field(pc, "h"), pre.get("sst"), pre.get("cst"))
    else:   # the handler's sends, header operations, return and finish()
        view = (field(pc, "h"), pre.get("sst"), pre.get("sprop"), cd, pre.get("resp") == "<<>>", pre.get("svrExit"))
    return (act, arg or "") + view + _out(post)


def cls_unary(act, arg, pre, post):
    return (act, arg or "", pre.get("spc"), pre.get("cpc"), pre.get("cctx") != '"live"', pre.get("chClosed"),
            pre.get("ch", "") != "<<>>", pre.get("decoded"), pre.get("outcome"), pre.get("gotResponse"),
            field(post.get("ev"), "n"), field(post.get("ev"), "k"), field(post.get("ev"), "cat"))


MODELS = {
    "HttpStream": dict(
        mc="MCHttpStream", cls=cls_http, depth=110,
        wanted={"pc", "rdpc", "cctx", "icancel", "done", "rErr", "ctr", "pipe", "reqEnd", "gone", "writeFailed", "ev",
                "hdErr", "ready", "wErr", "localErr", "respWire", "respEnd", "reqWire", "wbroken", "flushed", "bodyShut",
                "headersSent"},
        kinds=[(True, True), (True, False), (False, True)],
        consts=lambda rq, rs: {"ReqStreamC": bgen.tla_bool(rq), "RespStreamC": bgen.tla_bool(rs), "NS": 2, "NR": 3,
                               "NH": 4, "MaxCancel": 1, "CancelKinds": '{"cancel", "deadline"}', "MaxHdr": 2,
                               "MaxTrl": 2, "Statuses": "{0, 1, 2}", "Closers": '{"cs"}', "Known <-": "KnownOpen"}),
    "InprocStream": dict(
        mc="MCInprocStream", cls=cls_inproc, depth=110,
        wanted={"pc", "cctx", "sprop", "svrDone", "svrExit", "sst", "cst", "reqClosed", "respClosed", "sendClosed",
                "probe", "ev", "req", "resp", "clast"},
        kinds=[(True, True), (True, False), (False, True)],
        consts=lambda rq, rs: {"ReqStreamC": bgen.tla_bool(rq), "RespStreamC": bgen.tla_bool(rs), "NS": 2, "NR": 3,
                               "NH": 4, "MaxCancel": 1, "CancelKinds": '{"cancel", "deadline"}', "Cap": 1,
                               "MaxHdr": 2, "MaxTrl": 1, "Statuses": "{0, 1, 2}", "Closers": '{"cs", "cs2"}',
                               "Known <-": "KnownOpen"}),
    "InprocUnary": dict(
        mc="MCInprocUnary", cls=cls_unary, depth=50,
        wanted={"spc", "cpc", "cctx", "chClosed", "ch", "decoded", "outcome", "gotResponse", "ev"},
        kinds=[(False, False)],
        consts=lambda rq, rs: {"NH": 4, "MaxHdr": 2, "MaxTrl": 1, "Outcomes": '{"resp", "nilresp", "err", "resperr"}',
                               "CancelKinds": '{"cancel", "deadline"}', "FixClosed": "TRUE", "FixDecode": "TRUE",
                               "Known <-": "KnownOpen"}),
}


def kind_name(rq, rs):
    if not rq and not rs:
        return "unary"
    return bgen.kind_of(rq, rs)


ABS_VIEWS = {
    "HttpStream": """AbsView == <<pc, rdpc, cctx # "live", icancel, done, rErr, ctr.set, ctr.st > 0, pipe, reqEnd, gone, wbroken,
             writeFailed, flushed, bodyShut, respWire = <<>>, reqWire = <<>>, respEnd, wErr, hdErr, ready, offer > 0,
             got > 0, headersSent, hState, cTerm.k, localErr, bud, respHdr = NoHdr, hStatus.code > 0>>""",
    "InprocStream": """AbsView == <<pc, cctx # "live", sprop, svrDone, svrExit, sst, cst, reqClosed, respClosed, sendClosed, probe,
             req = <<>>, resp = <<>>, clast.t, reqMu, respMu, smu, got > 0, hState, cTerm.k, bud, panicked,
             hStatus.code > 0>>""",
    "InprocUnary": "AbsView == <<vars, lvars>>",
}

GRAPH_CONSTS = {
    "HttpStream": lambda rq, rs: {"ReqStreamC": bgen.tla_bool(rq), "RespStreamC": bgen.tla_bool(rs), "NS": 1, "NR": 2,
                                  "NH": 3, "MaxCancel": 1, "CancelKinds": '{"cancel"}', "MaxHdr": 1, "MaxTrl": 1,
                                  "Statuses": "{0, 1}", "Closers": '{"cs"}', "Known <-": "KnownOpen",
                                  "OverrunN": 0, "DrainFirst": "FALSE"},
    "InprocStream": lambda rq, rs: {"ReqStreamC": bgen.tla_bool(rq), "RespStreamC": bgen.tla_bool(rs), "NS": 1, "NR": 2,
                                    "NH": 3, "MaxCancel": 1, "CancelKinds": '{"cancel"}', "Cap": 1, "MaxHdr": 1,
                                    "MaxTrl": 1, "Statuses": "{0, 1}", "Closers": '{"cs"}', "Known <-": "KnownOpen"},
    "InprocUnary": lambda rq, rs: {"NH": 3, "MaxHdr": 1, "MaxTrl": 1, "Outcomes": '{"resp", "nilresp", "err", "resperr"}',
                                   "CancelKinds": '{"cancel"}', "FixClosed": "TRUE", "FixDecode": "TRUE",
                                   "Known <-": "KnownOpen"},
}

_node = re.compile(r'^(-?\d+) \[label="(.*)"')
_edge = re.compile(r'^(-?\d+) -> (-?\d+) \[label="((?:[^"\\]|\\.)*)"')


def generate(model, cap):
    import props
    spec = MODELS[model]
    os.makedirs(OUT, exist_ok=True)
    for (rq, rs) in spec["kinds"]:
        kind = kind_name(rq, rs)
        sc = vlib.Scratch("directed")
        try:
            files = props.mc_files()
            mc = spec["mc"] + ".tla"
            files[mc] = files[mc].replace("====", ABS_VIEWS[model] + "\n====")
            consts = GRAPH_CONSTS[model](rq, rs)
            cfg = bgen.cfg_text(consts, extra="VIEW AbsView")
            dot = sc.path("graph.dot")
            r = vlib.run_tlc(sc, spec["mc"], cfg, workers=1, timeout=3600, name="graph", heap="16g",
                             extra=["-dump", "dot,actionlabels", dot], files=files)
            if not os.path.exists(dot) or not r["ok"]:
                raise SystemExit("graph exploration failed:\n" + r["stdout"][-2000:])
            wanted = spec["wanted"]
            vre = re.compile(r'/\\\\ (%s) = ((?:(?!\\n/\\\\ ).)*)' % "|".join(sorted(wanted)))
            nodes = {}      # id -> {var: text}
            parent = {}     # id -> (src, action, arg)
            chosen = {}     # class -> (src, dst, action, arg)
            nedges = 0
            pending = []    # edges whose destination node has not been printed yet
            root = None

            def classify(e):
                src, dst, act, arg = e
                c = spec["cls"](act, arg, nodes[src], nodes[dst])
                if c not in chosen:
                    chosen[c] = e
            for line in open(dot, errors="replace"):
                m = _edge.match(line)
                if m:
                    src, dst = int(m.group(1)), int(m.group(2))
                    lab = m.group(3).replace('\\"', '"')
                    am = re.match(r'(\w+)(?:\((.*)\))?$', lab)
                    act, arg = am.group(1), am.group(2)
                    if arg is not None:
                        arg = arg.strip().strip('"')
                    nedges += 1
                    if dst not in parent and dst != src and dst != root:
                        parent[dst] = (src, act, arg)
                    e = (src, dst, act, arg)
                    if dst in nodes:
                        classify(e)
                    else:
                        pending.append(e)
                    continue
                m = _node.match(line)
                if m:
                    nid = int(m.group(1))
                    lab = m.group(2).replace('\\"', '"')
                    nodes[nid] = {k: v for k, v in vre.findall(lab)}
                    if root is None:
                        root = nid
                    if pending:
                        still = []
                        for e in pending:
                            if e[1] in nodes:
                                classify(e)
                            else:
                                still.append(e)
                        pending = still
            for e in pending:
                if e[1] in nodes:
                    classify(e)

            def path(nid):
                acts = []
                while nid != root:
                    src, act, arg = parent[nid]
                    acts.append([act, arg])
                    nid = src
                acts.reverse()
                return acts
            behs = set()
            for (src, dst, act, arg) in chosen.values():
                if act == "Terminated":
                    continue
                behs.add(tuple((a, b) for a, b in path(src) + [[act, arg]]))
            # drop behaviours that are proper prefixes of others
            allp = set()
            for b in behs:
                for i in range(1, len(b)):
                    allp.add(b[:i])
            behs = sorted((b for b in behs if b not in allp), key=lambda b: (len(b), b))
            if cap and len(behs) > cap:
                # keep an even spread over the lengths
                step = len(behs) / float(cap)
                behs = [behs[int(i * step)] for i in range(cap)]
            out = dict(model=model, kind=kind, spec_hash=spec_hash(model), abstract_states=len(nodes), edges=nedges,
                       classes=len(chosen), behaviours=[[list(x) for x in b] for b in behs], constants=consts)
            with open(os.path.join(OUT, "%s-%s.json" % (model, kind)), "w") as f:
                json.dump(out, f, separators=(",", ":"))
            print("%s %s: %d abstract states, %d edges, %d classes -> %d behaviours (mean length %.1f)" %
                  (model, kind, len(nodes), nedges, len(chosen), len(behs),
                   sum(len(b) for b in behs) / max(1.0, float(len(behs)))), flush=True)
        finally:
            sc.cleanup()


def load(model, kind):
    """-> (behaviours as lists of (action, arg), fresh?)"""
    p = os.path.join(OUT, "%s-%s.json" % (model, kind))
    if not os.path.exists(p):
        return [], False
    j = json.load(open(p))
    return [[(a, b) for a, b in beh] for beh in j["behaviours"]], j.get("spec_hash") == spec_hash(model)


def main():
    ap = argparse.ArgumentParser()
    ap.add_argument("--model", default="all")
    ap.add_argument("--cap", type=int, default=0, help="at most this many behaviours per kind (0 = all)")
    ap.add_argument("--check", action="store_true", help="only report whether the stored schedules are fresh")
    a = ap.parse_args()
    models = list(MODELS) if a.model == "all" else [a.model]
    if a.check:
        for m in models:
            for (rq, rs) in MODELS[m]["kinds"]:
                b, fresh = load(m, kind_name(rq, rs))
                print(m, kind_name(rq, rs), len(b), "fresh" if fresh else "STALE")
        return
    for m in models:
        generate(m, a.cap)


if __name__ == "__main__":
    main()
