"""Shared helpers of the verification orchestrator (python3 stdlib only)."""
import json
import os
import re
import shutil
import subprocess
import sys
import tempfile
import time

VERIF = os.path.dirname(os.path.dirname(os.path.abspath(__file__)))
REPO = os.environ.get("VERIF_REPO", "/repo")
TLA_CP = "/opt/veriftools/tla/tla2tools.jar:/opt/veriftools/tla/CommunityModules-deps.jar"

GOENV = dict(GOFLAGS="-mod=mod", GOPROXY="off", GOSUMDB="off", GOTOOLCHAIN="local")


class Infra(Exception):
    """Infrastructure failure: exit 2, never a verdict."""


def log(*a):
    print(*a, file=sys.stderr, flush=True)


class Scratch:
    """Per-check scratch directory, removed at exit."""

    def __init__(self, prefix):
        base = os.environ.get("TMPDIR") or "/tmp"
        self.dir = tempfile.mkdtemp(prefix="verif-%s-" % prefix, dir=base)

    def path(self, *p):
        return os.path.join(self.dir, *p)

    def sub(self, name):
        d = self.path(name)
        os.makedirs(d, exist_ok=True)
        return d

    def cleanup(self):
        shutil.rmtree(self.dir, ignore_errors=True)


def build_harness(scratch, tags="verif"):
    """Builds the Go harness against the current working tree of the repo."""
    src = os.path.join(VERIF, "harness")
    dst = scratch.sub("harness")
    for f in os.listdir(src):
        if f.endswith(".go"):
            shutil.copy(os.path.join(src, f), dst)
    tmpl = open(os.path.join(src, "go.mod.tmpl")).read()
    open(os.path.join(dst, "go.mod"), "w").write(tmpl.replace("@REPO@", REPO))
    shutil.copy(os.path.join(REPO, "go.sum"), os.path.join(dst, "go.sum"))
    env = dict(os.environ)
    env.update(GOENV)
    out = scratch.path("verifharness")
    t0 = time.time()
    p = subprocess.run(["go", "build", "-tags", tags, "-o", out, "."], cwd=dst, env=env,
                       stdout=subprocess.PIPE, stderr=subprocess.STDOUT, text=True)
    if p.returncode != 0:
        raise Infra("harness build failed:\n" + p.stdout[-4000:])
    log("harness built in %.1fs" % (time.time() - t0))
    return out


def build_plugin(scratch):
    """Builds the protoc plugin of the repository (C19)."""
    out = scratch.path("protoc-gen-grpchan")
    env = dict(os.environ)
    env.update(GOENV)
    p = subprocess.run(["go", "build", "-o", out, "./cmd/protoc-gen-grpchan"], cwd=REPO, env=env,
                       stdout=subprocess.PIPE, stderr=subprocess.STDOUT, text=True)
    if p.returncode != 0:
        raise Infra("plugin build failed:\n" + p.stdout[-3000:])
    return out


def go_env():
    env = dict(os.environ)
    env.update(GOENV)
    return env


_tlc_re_states = re.compile(r"(\d+) states generated, (\d+) distinct states found")


def run_tlc(scratch, module, cfg_text, env=None, workers=1, timeout=600, extra=None,
            depth_first=False, name=None, heap="8g", coverage=False, files=None):
    """Runs TLC on spec/<module>.tla in a private directory. Returns a dict with
    stdout, states (distinct), generated, ok (no error reported), timed_out."""
    name = name or module
    d = scratch.sub("tlc-" + name)
    for f in os.listdir(os.path.join(VERIF, "spec")):
        if f.endswith(".tla"):
            shutil.copy(os.path.join(VERIF, "spec", f), d)
    for fn, txt in (files or {}).items():
        open(os.path.join(d, fn), "w").write(txt)
    open(os.path.join(d, module + ".cfg"), "w").write(cfg_text)
    tmp = os.path.join(d, "tmp")
    os.makedirs(tmp, exist_ok=True)
    jopts = ["-XX:+UseParallelGC", "-Xmx" + heap, "-Xss64m", "-Djava.io.tmpdir=" + tmp]
    if depth_first:
        jopts.append("-Dtlc2.tool.queue.IStateQueue=StateDeque")
    cmd = ["java"] + jopts + ["-cp", TLA_CP, "tlc2.TLC", "-workers", str(workers),
                              "-metadir", os.path.join(d, "meta"), "-noGenerateSpecTE"]
    if coverage:
        cmd += ["-coverage", "1"]
    if extra:
        cmd += extra
    cmd += ["-config", module + ".cfg", module]
    e = dict(os.environ)
    e.pop("JAVA_TOOL_OPTIONS", None)
    if env:
        e.update(env)
    t0 = time.time()
    timed_out = False
    try:
        p = subprocess.run(cmd, cwd=d, env=e, stdout=subprocess.PIPE, stderr=subprocess.STDOUT,
                           text=True, timeout=timeout)
        out = p.stdout
        rc = p.returncode
    except subprocess.TimeoutExpired as ex:
        out = (ex.stdout or b"").decode("utf-8", "replace") if isinstance(ex.stdout, bytes) else (ex.stdout or "")
        rc = -1
        timed_out = True
        subprocess.run(["pkill", "-f", d], stdout=subprocess.DEVNULL, stderr=subprocess.DEVNULL)
    res = dict(stdout=out, rc=rc, timed_out=timed_out, wall=time.time() - t0, dir=d,
               states=0, generated=0)
    m = None
    for m in _tlc_re_states.finditer(out):
        pass
    if m:
        res["generated"] = int(m.group(1))
        res["states"] = int(m.group(2))
    res["ok"] = (rc == 0 and "Model checking completed. No error has been found." in out) or \
                (rc == 0 and "Finished in" in out and "Error:" not in out)
    res["violated"] = re.findall(r"Error: Invariant (\S+) is violated", out) + \
        re.findall(r"Error: Action property (\S+) is violated", out) + \
        re.findall(r"Error: Temporal properties were violated", out)
    return res


def monitor(scratch, module, trace_file, name=None, timeout=1800):
    """B-mon: replays a trace file through a Trace* module; returns the JSON the
    module wrote: {consumed, bad, viol: [...]} plus TLC statistics."""
    out = scratch.path((name or module) + ".out.json")
    if os.path.exists(out):
        os.remove(out)
    cfg = "SPECIFICATION TraceSpec\nCHECK_DEADLOCK FALSE\n"
    r = run_tlc(scratch, module, cfg, env={"VERIF_TRACE": trace_file, "VERIF_OUT": out},
                workers=1, timeout=timeout, name=name or module)
    if not r["ok"] or not os.path.exists(out):
        raise Infra("trace monitor %s failed:\n%s" % (module, r["stdout"][-3000:]))
    j = json.load(open(out))
    nlines = sum(1 for _ in open(trace_file))
    if j["consumed"] != nlines:
        raise Infra("trace monitor consumed %d of %d events" % (j["consumed"], nlines))
    if j.get("bad", 0):
        raise Infra("trace monitor met %d unknown events" % j["bad"])
    j["tlc_states"] = r["states"]
    j["tlc_generated"] = r["generated"]
    j["wall"] = r["wall"]
    return j


def run_harness(binary, args, timeout=3600, stdin=None):
    p = subprocess.run([binary] + args, stdout=subprocess.PIPE, stderr=subprocess.PIPE, text=True,
                       timeout=timeout, env=go_env(), input=stdin)
    return p


def load_meta(trace_file):
    meta = {}
    mf = trace_file + ".meta"
    if os.path.exists(mf):
        for line in open(mf):
            j = json.loads(line)
            meta[j["run"]] = j["meta"]
    return meta


def run_events(trace_file, run):
    out = []
    for line in open(trace_file):
        if '"run":%d,' % run in line or '"run":%d}' % run in line:
            j = json.loads(line)
            if j.get("run") == run:
                out.append(j)
    return out


def gen_module(base, expr="Cases"):
    return ("---- MODULE Gen%s ----\nEXTENDS %s, GenCases\nASSUME WriteCases(%s)\n====\n" % (base, base, expr))


def stateless_trace_module(base, chk="Chk"):
    """Trace module for a specification without variables: replays observed
    outcome records through base!Chk and accumulates the reasons."""
    return """---- MODULE Trace%(b)s ----
EXTENDS %(b)s, TLC, Json, IOUtils, SequencesExt
VARIABLES l, viol, done
Trace == ndJsonDeserialize(IOEnv.VERIF_TRACE)
TInit == l = 1 /\\ viol = <<>> /\\ done = FALSE
Step == /\\ l <= Len(Trace) /\\ l' = l + 1 /\\ done' = done
        /\\ LET o == Trace[l]
               S == %(c)s(o) IN
             viol' = IF S = {} \\/ Len(viol) >= 5000 THEN viol
                     ELSE viol \\o SetToSeq({[l |-> l, why |-> w, case |-> o] : w \\in S})
Finish == /\\ l = Len(Trace) + 1 /\\ ~done /\\ done' = TRUE
          /\\ JsonSerialize(IOEnv.VERIF_OUT, [consumed |-> l - 1, bad |-> 0, viol |-> viol])
          /\\ UNCHANGED <<l, viol>>
TraceSpec == TInit /\\ [][Step \\/ Finish]_<<l, viol, done>>
====
""" % dict(b=base, c=chk)


def gen_cases(scratch, base, expr="Cases", timeout=600, consts=None):
    """B-gen for the tabular specifications: TLC enumerates base!Cases."""
    out = scratch.path("cases-%s.ndjson" % base)
    cfg = "SPECIFICATION GSpec\n"
    if consts:
        cfg += "CONSTANTS\n" + "".join(" %s = %s\n" % kv for kv in consts.items())
    r = run_tlc(scratch, "Gen" + base, cfg, env={"VERIF_OUT": out}, workers=1, timeout=timeout,
                name="gen-" + base, files={"Gen%s.tla" % base: gen_module(base, expr)})
    if not r["ok"] or not os.path.exists(out):
        raise Infra("case generation from %s failed:\n%s" % (base, r["stdout"][-3000:]))
    return out, r


def monitor_cases(scratch, base, trace_file, chk="Chk", name=None, timeout=1800):
    """B-mon for the tabular specifications."""
    out = scratch.path((name or base) + ".out.json")
    if os.path.exists(out):
        os.remove(out)
    r = run_tlc(scratch, "Trace" + base, "SPECIFICATION TraceSpec\nCHECK_DEADLOCK FALSE\n",
                env={"VERIF_TRACE": trace_file, "VERIF_OUT": out}, workers=1, timeout=timeout,
                name=name or ("mon-" + base), files={"Trace%s.tla" % base: stateless_trace_module(base, chk)})
    if not r["ok"] or not os.path.exists(out):
        raise Infra("trace monitor for %s failed:\n%s" % (base, r["stdout"][-3000:]))
    j = json.load(open(out))
    nlines = sum(1 for _ in open(trace_file))
    if j["consumed"] != nlines:
        raise Infra("trace monitor consumed %d of %d records" % (j["consumed"], nlines))
    j["tlc_states"] = r["states"]
    j["tlc_generated"] = r["generated"]
    return j


def conform(scratch, module, trace_files, kinds, consts_for, name, timeout=900, max_runs=None, corrupt=0,
            trs=("inproc",)):
    """B-conf: validates recorded runs against an L1 model with silent internal
    steps. trace_files: NDJSON trace files; kinds: dict kind -> (ReqStreamC,
    RespStreamC). Returns dict(total, accepted, rejected=[run ids], states)."""
    import concurrent.futures
    with concurrent.futures.ThreadPoolExecutor(max_workers=max(1, len(kinds))) as ex:
        parts = list(ex.map(lambda kv: _conform_kind(scratch, module, trace_files, kv[0], kv[1], consts_for, name,
                                                     timeout, max_runs, corrupt, trs), kinds.items()))
    out = dict(total=0, accepted=0, rejected=[], states=0, stuck={}, accepted_runs=[])
    for p in parts:
        out["total"] += p["total"]
        out["accepted"] += p["accepted"]
        out["rejected"] += p["rejected"]
        out["accepted_runs"] += p.get("accepted_runs", [])
        out["states"] += p["states"]
        out["stuck"].update(p["stuck"])
    return out


def _conform_kind(scratch, module, trace_files, kind, flags, consts_for, name, timeout, max_runs, corrupt, trs):
    total, accepted, rejected, states = 0, 0, [], 0
    stuck = {}
    if True:
        # collect the stream runs of this kind on the transports of the model
        lines = []
        cur = None
        keep = False
        for tf in trace_files:
            for line in open(tf):
                j = json.loads(line)
                if j["ev"] == "Begin":
                    keep = j.get("tr") in trs and j.get("kind") == kind
                if keep:
                    lines.append(j)
        # a custom context type (the harness's deadline context) propagates to the
        # library's derived contexts through a goroutine: in free-running mode the
        # two sides see the deadline at different instants, which the model's
        # single context flag cannot express; those runs are left to L0
        skip = {j["run"] for j in lines if j["ev"] == "Cancel" and j.get("why") == "deadline"} & \
               {j["run"] for j in lines if j["ev"] == "Begin" and j.get("mode") == "free"}
        lines = [j for j in lines if j["run"] not in skip]
        if not lines:
            return dict(total=0, accepted=0, rejected=[], states=0, stuck={})
        if max_runs:
            seen, cut = set(), len(lines)
            for i, j in enumerate(lines):
                if j["ev"] == "Begin":
                    if len(seen) >= max_runs:
                        cut = i
                        break
                    seen.add(j["run"])
            lines = lines[:cut]
        if corrupt:
            # binding demonstration: alter one logged field (the id of a received
            # message) of every run that has one; none may be accepted
            changed = set()
            for j in lines:
                if j["run"] in changed:
                    continue
                if j["ev"] in ("CRecvRet", "HRecvRet") and j["res"]["k"] == "nil":
                    j["msg"] = j["msg"] + 1
                    changed.add(j["run"])
            # (corrupt = how many of them, taken from the same window of runs
            # as the validation proper)
            keep_runs = set(sorted(changed)[:int(corrupt)])
            lines = [j for j in lines if j["run"] in keep_runs]
            if not lines:
                return dict(total=0, accepted=0, rejected=[], states=0, stuck={})
        n = len(lines)
        nb = n + 1
        for i in range(n - 1, -1, -1):
            lines[i]["nb"] = nb
            if lines[i]["ev"] == "Begin":
                nb = i + 1
        runs = sorted({j["run"] for j in lines})
        total += len(runs)
        tfile = scratch.path("conf-%s-%s.ndjson" % (name, kind))
        with open(tfile, "w") as f:
            for j in lines:
                f.write(json.dumps(j) + "\n")
        out = scratch.path("conf-%s-%s.out.json" % (name, kind))
        cfg = "SPECIFICATION TraceSpec\nCHECK_DEADLOCK FALSE\nPOSTCONDITION WriteOut\nCONSTANTS\n" + \
              "".join(" %s = %s\n" % kv for kv in consts_for(flags).items())
        r = run_tlc(scratch, module, cfg, env={"VERIF_TRACE": tfile, "VERIF_OUT": out}, workers=1,
                    timeout=timeout, name="conf-%s-%s" % (name, kind), heap="8g")
        if not os.path.exists(out):
            raise Infra("B-conf run for %s failed:\n%s" % (kind, r["stdout"][-3000:]))
        res = json.load(open(out))
        acc = set(res["accepted"])
        accepted += len(acc)
        rejected += [x for x in runs if x not in acc]
        states += r["states"]
        # where the model got stuck on a rejected run: the first line it could not explain
        reached = {int(a): int(b) for a, b in res.get("reached", [])}
        for x in runs:
            if x in acc:
                continue
            pos = reached.get(x, 0)     # 1-based index of the last explained event line
            nxt = None
            for i in range(pos, n):     # lines[pos] is the line after it
                j = lines[i]
                if j["run"] != x:
                    if pos == 0:
                        continue
                    break
                if j["ev"] not in ("Begin", "Quiesce", "Winddown", "Census", "CensusT", "HStart", "CNewStreamCall",
                                   "CNewStreamRet", "Cancel", "HCtxWait", "HSetHeaderCall", "HSendHeaderCall"):
                    nxt = {k: v for k, v in j.items() if k not in ("nb",)}
                    break
            stuck[x] = dict(kind=kind, line=nxt)
            if len(stuck) <= 3:
                # the whole run, for diagnosis from the evidence file
                stuck[x]["events"] = [{k: v for k, v in j.items() if k != "nb"} for j in lines if j["run"] == x][:80]
    return dict(total=total, accepted=accepted, rejected=rejected, states=states, stuck=stuck,
                accepted_runs=[x for x in runs if x in acc])


def run_apalache(scratch, module, inv, length=0, timeout=300):
    """Apalache (symbolic, unbounded integers) on spec/<module>.tla: does the
    invariant hold in every initial state (length 0) / up to `length` steps?
    Returns "holds", "violated" or raises Infra."""
    d = scratch.sub("apa-%s-%s" % (module, inv))
    shutil.copy(os.path.join(VERIF, "spec", module + ".tla"), d)
    cmd = ["apalache-mc", "check", "--init=Init", "--next=Next", "--inv=" + inv, "--length=%d" % length,
           "--out-dir=" + os.path.join(d, "out"), module + ".tla"]
    try:
        p = subprocess.run(cmd, cwd=d, stdout=subprocess.PIPE, stderr=subprocess.STDOUT, text=True, timeout=timeout)
    except subprocess.TimeoutExpired:
        raise Infra("apalache timed out on %s!%s" % (module, inv))
    if "The outcome is: NoError" in p.stdout:
        return "holds"
    if "The outcome is: Error" in p.stdout and "invariant" in p.stdout:
        return "violated"
    raise Infra("apalache failed on %s!%s:\n%s" % (module, inv, p.stdout[-2000:]))
