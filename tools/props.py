"""Per-property checks. Each check fills a Ctx; Ctx.finish turns what was found
into the exit code, the VIOLATION / KNOWN-FINDING lines and the evidence."""
import concurrent.futures as cf
import json
import os
import subprocess
import time

import bgen
import vlib

NCPU = os.cpu_count() or 4
# where evidence and replays are written (overridden when a check is pointed
# at a scratch copy carrying a seeded change, so that the committed evidence is
# not overwritten)
EVIDENCE_DIR = os.environ.get("VERIF_EVIDENCE_DIR") or os.path.join(vlib.VERIF, "evidence")
REPLAYS_DIR = os.environ.get("VERIF_REPLAYS_DIR") or os.path.join(vlib.VERIF, "replays")


class Ctx:
    def __init__(self, prop, tier, seed, scratch, replay=None):
        import glob
        for f in glob.glob(os.path.join(REPLAYS_DIR, prop + "-*.json")):
            if replay is None or os.path.abspath(f) != os.path.abspath(replay):
                os.remove(f)
        self.prop = prop
        self.tier = tier
        self.seed = seed
        self.scratch = scratch
        self.replay = replay
        self.quick = tier == "quick"
        self.harness = None
        self.states = 0          # distinct states over all TLC runs of this check
        self.transitions = 0     # states generated (= transitions explored)
        self.tlc_runs = []       # per run: name, states, generated, wall, constants
        self.traces = 0          # traces of the real code validated by TLC
        self.evaluations = 0     # executions on the real code
        self.distinct = 0        # distinct non-trivial traces
        self.samples = []
        self.rules = []
        self.assumptions = []
        self.viol = []           # violations attributed to this property
        self.other = {}          # violations of other properties seen on the way (count)
        self.drift = []
        self.extra = {}
        self.exhaustive = None
        self.level = "model_checking"

    # ---- building blocks -------------------------------------------------
    def build(self):
        if self.harness is None:
            self.harness = vlib.build_harness(self.scratch)
        return self.harness

    def tlc(self, module, consts, invariants=(), properties=(), spec="Spec", name=None,
            timeout=900, workers=None, extra=None, heap="24g", coverage=False, view=None):
        cfg = bgen.cfg_text(consts, spec=spec, invariants=invariants, properties=properties,
                            extra=("VIEW " + view) if view else "")
        r = vlib.run_tlc(self.scratch, module, cfg, workers=workers or NCPU, timeout=timeout,
                         name=name or module, extra=extra, heap=heap, coverage=coverage, files=mc_files())
        self.states += r["states"]
        self.transitions += r["generated"]
        self.tlc_runs.append(dict(name=name or module, states=r["states"], generated=r["generated"],
                                  wall=round(r["wall"], 1), timed_out=r["timed_out"],
                                  violated=r["violated"], constants=consts))
        return r

    def tlc_many(self, jobs, timeout=900, heap="6g"):
        """Runs several exhaustive TLC jobs concurrently (dicts with module,
        consts, invariants, name), sharing the cores. Returns the results in order."""
        import concurrent.futures
        w = max(2, NCPU // max(1, len(jobs)))

        def one(j):
            cfg = bgen.cfg_text(j["consts"], spec="Spec", invariants=j["invariants"], properties=(),
                                extra=("VIEW " + j["view"]) if j.get("view") else "")
            return vlib.run_tlc(self.scratch, j["module"], cfg, workers=w, timeout=timeout, name=j["name"],
                                heap=heap, files=mc_files())
        with concurrent.futures.ThreadPoolExecutor(max_workers=len(jobs)) as ex:
            res = list(ex.map(one, jobs))
        for j, r in zip(jobs, res):
            self.states += r["states"]
            self.transitions += r["generated"]
            self.tlc_runs.append(dict(name=j["name"], states=r["states"], generated=r["generated"],
                                      wall=round(r["wall"], 1), timed_out=r["timed_out"],
                                      violated=r["violated"], constants=j["consts"],
                                      **({"vacuity_guard_expected_to_violate": "C05_NoStuck"} if j.get("guard") else {})))
        return res

    def add_violation(self, v):
        """v: dict with at least prop, why; plus signature fields and replay data."""
        self.__dict__.setdefault("allviol", []).append(v)
        if v["prop"] == self.prop:
            self.viol.append(v)
        else:
            k = "%s/%s" % (v["prop"], v["why"])
            self.other[k] = self.other.get(k, 0) + 1

    # ---- verdict ----------------------------------------------------------
    def unlisted_count(self):
        """violations of the property under check that no open known finding covers"""
        mine_open = [k for k in load_known() if k["property"] == self.prop and k["status"] == "open"]
        return sum(1 for v in self.viol if not any(matches(k["match"], v) for k in mine_open))

    def finish(self, wall):
        kf = load_known()
        mine_open = [k for k in kf if k["property"] == self.prop and k["status"] == "open"]
        unlisted = []
        hit = {}
        for v in self.viol:
            m = None
            for k in mine_open:
                if matches(k["match"], v):
                    m = k
                    break
            if m is None:
                unlisted.append(v)
            else:
                hit[m["id"]] = hit.get(m["id"], 0) + 1
        for k in mine_open:
            if hit.get(k["id"]):
                print("KNOWN-FINDING: property=%s %s [%s, %d occurrence(s) in this run]" %
                      (self.prop, k["what"], k["id"], hit[k["id"]]))
        rc = 0
        if unlisted:
            rc = 1
            os.makedirs(REPLAYS_DIR, exist_ok=True)
            seen = set()
            n = 0
            for v in unlisted:
                sig = json.dumps({k: v.get(k) for k in ("prop", "why", "tr", "kind", "ev", "case")}, sort_keys=True)
                if sig in seen:
                    continue
                seen.add(sig)
                n += 1
                path = os.path.join(REPLAYS_DIR, "%s-%d-%d.json" % (self.prop, self.seed, n))
                json.dump(v, open(path, "w"), indent=1, default=str)
                print("VIOLATION property=%s replay=%s  (%s)" % (self.prop, path, v.get("why")))
                if n >= 10:
                    break
        if os.environ.get("VERIF_DUMP"):
            json.dump(self.__dict__.get("allviol", []), open(os.environ["VERIF_DUMP"], "w"), default=str)
        self.write_evidence(wall, len(unlisted), hit)
        for k, n in sorted(self.other.items()):
            vlib.log("note: %d violation(s) of %s seen by this run (reported by that property's check)" % (n, k))
        return rc

    def write_evidence(self, wall, nviol, hit):
        cov = dict(
            states=self.states, transitions=self.transitions,
            traces_validated_against_impl=self.traces,
            evaluations=self.evaluations, distinct_nontrivial=self.distinct,
            rule=" | ".join(self.rules),
            samples=self.samples[:4] or [{"note": "no sample recorded"}],
            tlc_runs=self.tlc_runs,
            known_findings_hit=hit,
            model_drift=self.drift[:20],
            violations_of_other_properties_seen=self.other,
        )
        if self.exhaustive is not None:
            cov["exhaustive"] = self.exhaustive
        cov.update(self.extra)
        ev = dict(property_id=self.prop, tier=self.tier, seed=self.seed, level=self.level,
                  coverage=cov, assumptions=self.assumptions, wall_s=round(wall, 1),
                  violations=nviol)
        os.makedirs(EVIDENCE_DIR, exist_ok=True)
        json.dump(ev, open(os.path.join(EVIDENCE_DIR, self.prop + ".json"), "w"), indent=1, default=str)


def load_known():
    p = os.path.join(vlib.VERIF, "known_findings.json")
    if not os.path.exists(p):
        return []
    return json.load(open(p))


def matches(match, v):
    for k, want in match.items():
        got = v.get(k)
        if isinstance(got, list):
            if want not in got:
                return False
        elif got != want:
            return False
    return True


# ---------------------------------------------------------------------------
# family A: the call protocol (C01 C02 C03 C04 C05 C08 C20)

def run_scripts(ctx, scripts, name, shards=None):
    """Executes scripts on the real code in parallel worker processes and
    validates the traces against L0 (B-mon). Returns the violations."""
    if not scripts:
        return []
    h = ctx.build()
    d = ctx.scratch.sub("run-" + name)
    sf = os.path.join(d, "scripts.ndjson")
    with open(sf, "w") as f:
        for s in scripts:
            f.write(json.dumps(s) + "\n")
    shards = shards or min(NCPU, max(1, len(scripts) // 20))

    def shard(i):
        """one worker process for shard i, restarted after a script on which it
        got stuck (goroutines parked in the library for good) or crashed"""
        outs_i, viols_i, runs, distinct = [], [], 0, 0
        out = os.path.join(d, "t%d.ndjson" % i)
        args = [h, "calls", "--scripts", sf, "--out", out, "--shard", str(i), "--shards", str(shards),
                "--firstrun", str(1 + i * 1000000)]
        guard = 0
        while True:
            try:
                p = subprocess.run(args, stdout=subprocess.PIPE, stderr=subprocess.PIPE, text=True, env=vlib.go_env(),
                                   timeout=3600)
            except subprocess.TimeoutExpired:
                raise vlib.Infra("harness worker timed out")
            rc, so, se = p.returncode, p.stdout, p.stderr
            outs_i.append(out)
            try:
                j = json.loads(so.strip().splitlines()[-1])
                runs += j["runs"]
                distinct += j["distinct"]
            except Exception:
                pass
            if rc == 0:
                break
            last = journal_last(out)
            crash = crash_event(se) if rc != 3 else None
            if rc != 3 and crash is None:
                raise vlib.Infra("harness worker failed (rc=%d):\n%s" % (rc, se[-3000:]))
            if crash is not None:
                # the process died from a panic inside the library: that is
                # an observable behaviour of the real code
                viols_i.append(dict(prop="C05", why="process-crash-in-library", tr=scripts[last]["tr"],
                                    kind=scripts[last]["kind"], ev="Panic", script=scripts[last], text=crash))
            guard += 1
            if guard >= 40:
                # the code under test keeps wedging this worker: what was recorded
                # so far is judged, the rest of the shard is left out
                vlib.log("shard %d of %s given up after %d restarts" % (i, name, guard))
                break
            out = os.path.join(d, "t%d.ndjson.r%d" % (i, guard))
            args = [h, "calls", "--scripts", sf, "--out", out, "--shard", str(i), "--shards", str(shards),
                    "--firstrun", str(1 + i * 1000000 + guard * 20000), "--start", str(last + 1)]
        return outs_i, viols_i, runs, distinct

    outs = []
    with cf.ThreadPoolExecutor(max_workers=shards) as ex:
        for outs_i, viols_i, runs, distinct in ex.map(shard, range(shards)):
            outs += outs_i
            for v in viols_i:
                ctx.add_violation(v)
            ctx.evaluations += runs
            ctx.distinct += distinct
    # B-mon: one TLC replay per worker file, in parallel
    viol = []
    files = [o for o in outs if os.path.exists(o) and os.path.getsize(o) > 0]

    def mon(o):
        return o, vlib.monitor(ctx.scratch, "TraceGrpcCall", o, name="mon-%s-%s" % (name, os.path.basename(o)))
    with cf.ThreadPoolExecutor(max_workers=NCPU) as ex:
        for o, j in ex.map(mon, files):
            ctx.states += j["tlc_states"]
            ctx.transitions += j["tlc_generated"]
            ctx.traces += count_runs(o)
            meta = None
            for v in j["viol"]:
                if meta is None:
                    meta = vlib.load_meta(o)
                sc = meta.get(v["run"], {})
                v["script"] = sc
                for k in ("msgcls", "stcls", "mode", "cloner", "fault", "viactx", "trlbin"):
                    v[k] = sc.get(k)
                v["events"] = vlib.run_events(o, v["run"])
                viol.append(v)
            if len(ctx.samples) < 3:
                s = first_run(o)
                if s:
                    ctx.samples.append(s)
    for v in viol:
        ctx.add_violation(v)
    return viol


def journal_last(out):
    last = 0
    try:
        for line in open(out + ".journal"):
            line = line.strip()
            if line.isdigit():
                last = int(line)
    except OSError:
        pass
    return last


def crash_event(stderr):
    """Returns the panic text if the process died of a panic whose first
    non-runtime frame is in the library (not in the harness)."""
    if "panic:" not in stderr and "fatal error:" not in stderr:
        return None
    lines = stderr.splitlines()
    for i, l in enumerate(lines):
        if l.startswith("panic:") or l.startswith("fatal error:"):
            for m in lines[i:]:
                m = m.strip()
                if m.startswith("github.com/fullstorydev/grpchan/"):
                    if "verifharness" in m:
                        return None
                    return l[:200] + " @ " + m[:160]
            return None
    return None


def count_runs(path):
    n = 0
    for line in open(path):
        if '"ev":"Begin"' in line:
            n += 1
    return n


def first_run(path):
    evs = []
    run = None
    for line in open(path):
        j = json.loads(line)
        if run is None:
            run = j["run"]
        if j["run"] != run:
            break
        evs.append(j)
        if len(evs) > 60:
            break
    meta = vlib.load_meta(path).get(run)
    return {"script": meta, "trace": evs} if evs else None


def gen_scripts(ctx, what, n, trs, seed):
    h = ctx.build()
    p = vlib.run_harness(h, ["gen", "--what", what, "--n", str(n), "--seed", str(seed), "--tr", trs])
    if p.returncode != 0:
        raise vlib.Infra("script generation failed: " + p.stderr[-2000:])
    return [json.loads(l) for l in p.stdout.splitlines() if l.strip()]


STREAM_KINDS = [(True, True), (True, False), (False, True)]


def open_deviations(module):
    """TLA+ set expression of the deviations that are open findings for a model."""
    devs = []
    for k in load_known():
        if k["status"] == "open" and module in k.get("models", []):
            devs.append('<<"%s", "%s">>' % (k["property"], k["match"]["why"]))
    return "{" + ", ".join(sorted(set(devs))) + "}"


def inproc_stream_consts(req, resp, ns, nr, nh, hdr=2, trl=1, statuses="{0, 1}", closers='{"cs", "cs2"}', cancel=1,
                         kinds='{"cancel"}'):
    return {"ReqStreamC": bgen.tla_bool(req), "RespStreamC": bgen.tla_bool(resp), "NS": ns, "NR": nr,
            "NH": nh, "MaxCancel": cancel, "CancelKinds": kinds, "Cap": 1, "MaxHdr": hdr, "MaxTrl": trl,
            "Statuses": statuses, "Closers": closers, "Known <-": "KnownOpen"}


def http_stream_consts(req, resp, ns, nr, nh, hdr=1, trl=1, statuses="{0, 1}", closers='{"cs", "cs2"}', cancel=1,
                       kinds='{"cancel", "deadline"}', overrun=0, drainfirst=False):
    return {"ReqStreamC": bgen.tla_bool(req), "RespStreamC": bgen.tla_bool(resp), "NS": ns, "NR": nr,
            "NH": nh, "MaxCancel": cancel, "CancelKinds": kinds, "MaxHdr": hdr, "MaxTrl": trl,
            "Statuses": statuses, "Closers": closers, "Known <-": "KnownOpen", "OverrunN": overrun,
            "DrainFirst": bgen.tla_bool(drainfirst)}


def mc_files():
    """MC modules, with the set of open deviations taken from known_findings.json."""
    out = {}
    for mod, base in (("MCInprocStream", "InprocStream"), ("MCInprocUnary", "InprocUnary"),
                      ("MCHttpStream", "HttpStream"), ("MCHttpUnary", "HttpUnary")):
        if not os.path.exists(os.path.join(vlib.VERIF, "spec", base + ".tla")):
            continue
        out[mod + ".tla"] = ("---- MODULE %s ----\nEXTENDS %s\nKnownOpen == %s\n====\n"
                             % (mod, base, open_deviations(base)))
    return out


def _tick(ctx, what):
    """phase timings, kept in the evidence"""
    now = time.time()
    ph = ctx.extra.setdefault("phase_wall_s", {})
    ph[what] = round(now - ctx.__dict__.get("_t", now), 1)
    ctx._t = now


def family_a(ctx, focus):
    """focus: dict steering the exploration for the property under check."""
    ctx._t = time.time()
    ctx.build()
    _tick(ctx, "build")
    q = ctx.quick
    seed = ctx.seed
    ctx.assumptions += [
        "single sender goroutine and single receiver goroutine per direction (gRPC's own rule)",
        "over HTTP/1.1 a reply becomes visible only after the request body has ended and the handler cannot read the request after its first reply bytes (net/http); free-running HTTP scripts are half-duplex, the behaviours generated from the HttpStream model are not",
        "metadata keys are lower-case and do not collide with the transport's own headers; plain values are printable ASCII without blanks at the ends (pinned findings cover the excluded classes)",
        "interning projection (proto.Equal, byte equality of metadata, status.Convert) is trusted; TLC decides which value may appear where",
    ]
    # 1. exhaustive TLC on the L1 model of the in-process stream (refinement
    #    L1 => L0, no panic, nothing stuck), all three streaming kinds
    invs = ["TypeOK", "NoPanic", "Refines", "C05_NoStuck"]
    budgets = focus.get("budgets_q" if q else "budgets_t", (1, 2, 2) if q else (2, 2, 3))
    jobs = []
    for (rq, rs) in STREAM_KINDS:
        # (the thorough budget with one header operation: 26-33 M distinct states, about 3-4 min per kind)
        jobs.append(dict(module="MCInprocStream", consts=inproc_stream_consts(rq, rs, *budgets, hdr=2 if q else 1),
                         invariants=invs, name="L1-inproc-%s" % bgen.kind_of(rq, rs), view="ViewNoEv",
                         kind=bgen.kind_of(rq, rs), tr="inproc", model="InprocStream"))
    # 1b. the same for the L1 model of the HTTP stream (client stream with its
    #     reader goroutine, server stream, net/http environment)
    one, two = ('{"cs"}', '{"cancel"}'), ('{"cs", "cs2"}', '{"cancel", "deadline"}')
    hcfgs = focus.get("hcfgs_q" if q else "hcfgs_t",
                      [((1, 2, 2), one)] if q else [((1, 2, 2), two), ((1, 3, 3), one)])
    for hb, (closers, kinds) in hcfgs:
        for (rq, rs) in STREAM_KINDS:
            jobs.append(dict(module="MCHttpStream", consts=http_stream_consts(rq, rs, *hb, closers=closers, kinds=kinds),
                             invariants=invs, name="L1-http-%s-%d%d%d" % ((bgen.kind_of(rq, rs),) + tuple(hb)),
                             view="ViewNoEv", kind=bgen.kind_of(rq, rs), tr="httpmem", model="HttpStream"))
    ucon = {"NH": 3 if q else 4, "MaxHdr": 2, "MaxTrl": 1, "Outcomes": '{"resp", "nilresp", "err", "resperr"}',
            "CancelKinds": '{"cancel"}', "FixClosed": "TRUE", "FixDecode": "TRUE", "Known <-": "KnownOpen"}
    jobs.append(dict(module="MCInprocUnary", consts=ucon, name="L1-inproc-unary", model="InprocUnary", view="ViewNoEv",
                     invariants=["TypeOK", "Refines", "C05_NoStuck", "C06_NoReadAfterReturn"]))
    jobs.append(dict(module="MCHttpUnary", model="HttpUnary", name="L1-http-unary", view="ViewNoEv",
                     consts={"NH": 3 if q else 4, "MaxHdr": 2, "MaxTrl": 1, "Outcomes": '{"resp", "nilresp", "err", "resperr"}',
                             "CancelKinds": '{"cancel", "deadline"}', "Known <-": "KnownOpen"},
                     invariants=["TypeOK", "Refines", "C05_NoStuck"]))
    if q:
        results = ctx.tlc_many(jobs, timeout=600)
    else:
        results = [ctx.tlc(j["module"], j["consts"], invariants=j["invariants"], name=j["name"], timeout=1500,
                           view=j.get("view")) for j in jobs]
    for j, r in zip(jobs, results):
        if j["model"] in ("InprocUnary", "HttpUnary"):
            if r["violated"]:
                acts = bgen.parse_actions(r["stdout"])
                http = j["model"] == "HttpUnary"
                v = run_scripts(ctx, [bgen.unary_script(acts, "cex-unary-%d" % i, seed + i, tr="httpmem" if http else "inproc",
                                                        gated=not http) for i in range(60)],
                                "cex-unary" + ("-http" if http else ""), shards=1)
                if not v:
                    raise vlib.Infra("TLC counterexample on %s is not reproducible on the real code: "
                                     "the model is wrong\n%s" % (j["model"], r["stdout"][-1500:]))
            elif not r["ok"]:
                raise vlib.Infra("TLC failed on %s:\n%s" % (j["model"], r["stdout"][-3000:]))
        elif r["violated"]:
            handle_model_counterexample(ctx, r, j["kind"], tr=j["tr"], model=j["model"])
        elif not r["ok"] and not r["timed_out"]:
            raise vlib.Infra("TLC failed on %s:\n%s" % (j["model"], r["stdout"][-3000:]))
    _tick(ctx, "L1 exhaustive")
    # 2. behaviours generated from the model, replayed into the real code
    scripts = []
    ucon2 = dict(ucon, NH=4, CancelKinds='{"cancel", "deadline"}')
    nun = focus.get("nunary_q" if q else "nunary_t", 150 if q else 1500)
    for j, b in enumerate(bgen.simulate(ctx.scratch, "MCInprocUnary", ucon2, nun, 40, seed * 11 + 3, "iu", files=mc_files())):
        for rep in range(3 if q else 8):
            scripts.append(bgen.unary_script(b, "sim-unary-%d-%d" % (j, rep), seed * 100003 + j))
        scripts.append(bgen.unary_script(b, "sim-unary-httpmem-%d" % j, seed * 100003 + j, tr="httpmem", gated=False))
    hucon = {"NH": 4, "MaxHdr": 2, "MaxTrl": 1, "Outcomes": '{"resp", "nilresp", "err", "resperr"}',
             "CancelKinds": '{"cancel", "deadline"}', "Known <-": "KnownOpen"}
    for j, b in enumerate(bgen.simulate(ctx.scratch, "MCHttpUnary", hucon, nun // 2, 40, seed * 11 + 5, "hu", files=mc_files())):
        scripts.append(bgen.unary_script(b, "sim-http-unary-%d" % j, seed * 100003 + j, tr="httpmem", gated=False))
    ctx.rules.append("behaviours of the L1 model InprocUnary replayed through the verifPoint gates of Invoke "
                     "(each repeated, since Go's select picks among ready cases at random)")
    nsim = focus.get("nsim_q" if q else "nsim_t", 150 if q else 2500)
    for i, (rq, rs) in enumerate(STREAM_KINDS):
        consts = inproc_stream_consts(rq, rs, 2, 3, 4, statuses="{0, 1, 2}", kinds='{"cancel", "deadline"}')
        bs = bgen.simulate(ctx.scratch, "MCInprocStream", consts, nsim, 90, seed * 7 + i, "is%d" % i, files=mc_files())
        kind = bgen.kind_of(rq, rs)
        for j, b in enumerate(bs):
            scripts.append(bgen.stream_script(b, kind, "inproc", "sim-inproc-%s-%d" % (kind, j), seed * 100003 + j))
            if j % 3 == 0:
                scripts.append(bgen.stream_script(b, kind, "inproc", "sim-inproc-gated-%s-%d" % (kind, j), seed * 100003 + j,
                                                  gated=True))
            if half_duplex_ok(b):
                scripts.append(bgen.stream_script(b, kind, "httpmem", "sim-httpmem-%s-%d" % (kind, j), seed * 100003 + j))
    ctx.rules.append("behaviours of the L1 model InprocStream (TLC -simulate) reduced to Start/Cancel steps and replayed "
                     "under the quiescence scheduler on inprocgrpc and on httpgrpc over the in-memory transport")
    nhsim = focus.get("nhsim_q" if q else "nhsim_t", 100 if q else 1500)
    for i, (rq, rs) in enumerate(STREAM_KINDS):
        consts = http_stream_consts(rq, rs, 2, 3, 4, hdr=2, trl=2, statuses="{0, 1, 2}")
        bs = bgen.simulate(ctx.scratch, "MCHttpStream", consts, nhsim, 90, seed * 13 + i, "hs%d" % i, files=mc_files())
        kind = bgen.kind_of(rq, rs)
        for j, b in enumerate(bs):
            scripts.append(bgen.stream_script(b, kind, "httpmem", "sim-http-%s-%d" % (kind, j), seed * 100019 + j))
        # step by step: every internal action of the model that is a schedule
        # point of httpgrpc (verifPoint gates) is a step of the schedule
        consts = http_stream_consts(rq, rs, 2, 3, 4, hdr=2, trl=2, statuses="{0, 1, 2}", closers='{"cs"}')
        bs = bgen.simulate(ctx.scratch, "MCHttpStream", consts, nhsim, 120, seed * 17 + i, "hg%d" % i, files=mc_files())
        for j, b in enumerate(bs):
            scripts.append(bgen.stream_script(b, kind, "httpmem", "sim-http-gated-%s-%d" % (kind, j), seed * 100019 + j,
                                              gated="http"))
    ctx.rules.append("behaviours of the L1 model HttpStream (TLC -simulate), half- and full-duplex, replayed under the "
                     "quiescence scheduler on httpgrpc over the in-memory transport; a second set replayed step by step "
                     "through the verifPoint gates of httpgrpc (reader goroutine, watcher, RecvMsg/SendMsg/CloseSend "
                     "and server stream internals)")
    # 2b. directed schedules: one shortest behaviour per class of step of the L1
    #     models (tools/directed.py: breadth-first search under an abstraction
    #     VIEW, stored with the hash of the specification), replayed step by
    #     step through the gates; they reach the windows random simulation
    #     almost never does
    import directed
    import random as _random
    rnd = _random.Random(seed)
    nd = focus.get("ndirected_q" if q else "ndirected_t", 700 if q else 0)   # per model and kind; 0 = all
    reps = 1 if q else 3
    stale = []
    for model, gated, trn in (("HttpStream", "http", "httpmem"), ("InprocStream", True, "inproc")):
        for (rq, rs) in STREAM_KINDS:
            kind = bgen.kind_of(rq, rs)
            behs, fresh = directed.load(model, kind)
            if not fresh:
                stale.append("%s-%s" % (model, kind))
            if nd and len(behs) > nd:
                behs = rnd.sample(behs, nd)
            for j, b in enumerate(behs):
                for rep in range(reps):
                    scripts.append(bgen.stream_script(b, kind, trn, "dir-%s-%s-%d-%d" % (trn, kind, j, rep),
                                                      seed * 100057 + j * 7 + rep, gated=gated))
    behs, fresh = directed.load("InprocUnary", "unary")
    if not fresh:
        stale.append("InprocUnary-unary")
    for j, b in enumerate(behs):
        for rep in range(reps):
            scripts.append(bgen.unary_script(b, "dir-unary-%d-%d" % (j, rep), seed * 100057 + j * 7 + rep))
    ctx.extra["directed_schedules"] = dict(stale=stale, per_model_kind=nd or "all", repetitions=reps)
    if stale:
        ctx.assumptions.append("directed schedules of %s were generated from an earlier version of the specification "
                               "(tools/directed.py regenerates them); they are still replayed: any behaviour of the "
                               "real code is a fair sample" % ", ".join(stale))
    ctx.rules.append("directed schedules: one shortest behaviour per (action, local view, API result) class of the L1 "
                     "models HttpStream, InprocStream and InprocUnary, found by TLC breadth-first under an abstraction "
                     "VIEW, replayed step by step through the verifPoint gates")
    _tick(ctx, "L1 simulate")
    # 3. randomized free-running scripts on every transport (data dimension,
    #    concurrency, cancellation races)
    n = focus.get("nfree_q" if q else "nfree_t", 120 if q else 3000)
    scripts += gen_scripts(ctx, "coop", n, "inproc,httpmem,http", seed)
    scripts += gen_scripts(ctx, "race", n, "inproc,httpmem,http", seed + 1)
    for what, cnt in focus.get("extra", []):
        scripts += gen_scripts(ctx, what, cnt if q else cnt * 10, "inproc,httpmem,http", seed + 2)
    ctx.rules.append("seeded cooperative and cancellation-race scripts (all four kinds, 1..6 concurrent calls) on inprocgrpc, "
                     "httpgrpc over the in-memory transport and httpgrpc over loopback TCP; non-trivial = trace with at "
                     "least one receive or status event, distinct = not byte-identical to another trace")
    # 4. calibration of L0 on the standard transport: must be accepted
    ref = gen_scripts(ctx, "coop", 40 if q else 400, "ref", seed) + gen_scripts(ctx, "race", 40 if q else 400, "ref", seed + 1)
    before = len(ctx.viol) + sum(ctx.other.values())
    rv = run_scripts(ctx, ref, "ref", shards=4)
    if rv:
        raise vlib.Infra("L0 rejects a trace of the standard gRPC transport (specification bug): %s" %
                         json.dumps({k: rv[0].get(k) for k in ("prop", "why", "kind", "ev")}))
    _tick(ctx, "ref calibration")
    # the main set in interleaved chunks; once the property under check has
    # been seen violated, further chunks add nothing to the verdict
    nch = max(1, (len(scripts) + 2999) // 3000)
    for k in range(nch):
        run_scripts(ctx, scripts[k::nch], "main" if k == 0 else "main-%d" % k)
        if k + 1 < nch and ctx.unlisted_count():
            ctx.extra["stopped_after_chunk"] = "%d of %d (violations of %s found)" % (k + 1, nch, ctx.prop)
            break
    _tick(ctx, "scripts on the real code + B-mon")
    run_pinned(ctx)
    _tick(ctx, "pinned")
    conformance(ctx, "main")
    _tick(ctx, "B-conf")


def conf_consts(flags):
    return {"ReqStreamC": bgen.tla_bool(flags[0]), "RespStreamC": bgen.tla_bool(flags[1]), "NS": 60, "NR": 60, "NH": 60,
            "MaxCancel": 1, "CancelKinds": '{"cancel", "deadline"}', "Cap": 1, "MaxHdr": 20, "MaxTrl": 20,
            "Statuses": "{0, 1, 2}", "Closers": '{"cs", "cs2"}', "Known": "{}"}


def http_conf_consts(flags):
    return {"ReqStreamC": bgen.tla_bool(flags[0]), "RespStreamC": bgen.tla_bool(flags[1]), "NS": 60, "NR": 60, "NH": 60,
            "MaxCancel": 1, "CancelKinds": '{"cancel", "deadline"}', "MaxHdr": 20, "MaxTrl": 20,
            "Statuses": "{0, 1, 2}", "Closers": '{"cs", "cs2"}', "Known": "{}",
            # (recorded runs may come from a server that gave up waiting for the end of a long request)
            "OverrunN": 2, "DrainFirst": "FALSE"}


def unary_conf_consts(flags):
    return {"NH": 60, "MaxHdr": 20, "MaxTrl": 20, "Outcomes": '{"resp", "nilresp", "err", "resperr"}',
            "CancelKinds": '{"cancel", "deadline"}', "FixClosed": "TRUE", "FixDecode": "TRUE", "Known": "{}"}


def http_unary_conf_consts(flags):
    return {"NH": 60, "MaxHdr": 20, "MaxTrl": 20, "Outcomes": '{"resp", "nilresp", "err", "resperr"}',
            "CancelKinds": '{"cancel", "deadline"}', "Known": "{}"}


CONF_KINDS = {"bidi": (True, True), "cstream": (True, False), "sstream": (False, True)}


def conformance(ctx, name):
    """B-conf: the recorded runs must be behaviours of the L1 models (silent
    internal steps, events matched with their arguments): in-process stream
    runs of InprocStream, HTTP stream runs (in-memory transport and loopback
    TCP) of HttpStream, in-process unary runs of InprocUnary. A run the model cannot explain is MODEL-DRIFT: reported, never
    a verdict."""
    d = ctx.scratch.path("run-" + name)
    files = sorted(os.path.join(d, f) for f in os.listdir(d)
                   if f.startswith("t") and ".ndjson" in f and not f.endswith((".meta", ".journal")))
    files = [f for f in files if os.path.getsize(f) > 0]
    if not files:
        return
    specs = (("TraceInprocStream", "InprocStream", ("inproc",), conf_consts, "l1_conformance", CONF_KINDS),
             ("TraceHttpStream", "HttpStream", ("http",), http_conf_consts, "l1_http_conformance", CONF_KINDS),
             ("TraceInprocUnary", "InprocUnary", ("inproc",), unary_conf_consts, "l1_unary_conformance",
              {"unary": (False, False)}),
             ("TraceHttpUnary", "HttpUnary", ("http",), http_unary_conf_consts, "l1_http_unary_conformance",
              {"unary": (False, False)}))
    tasks = []
    with cf.ThreadPoolExecutor(max_workers=8) as ex:
        for module, model, trs, consts, key, kinds in specs:
            tag = "%s-%s-%s" % (name, model, trs[0])
            tasks.append((model, key, False, ex.submit(
                vlib.conform, ctx.scratch, module, files, kinds, consts, tag,
                max_runs=40 if ctx.quick else 400, trs=trs)))
            # the binding binds: the same runs with one logged field altered must all be rejected
            tasks.append((model, key, True, ex.submit(
                vlib.conform, ctx.scratch, module, files, kinds, consts, tag + "-corrupt",
                max_runs=40 if ctx.quick else 400, corrupt=15, trs=trs)))
    res = {(key, corrupt): (model, fut.result()) for model, key, corrupt, fut in tasks}
    for (key, corrupt), (model, r) in sorted(res.items()):
        ctx.states += r["states"]
        if corrupt:
            # only runs the model explains as recorded count: a run it rejects
            # anyway proves nothing about the binding (and under a defect the
            # alteration may even "repair" a wrong message id)
            good = set(res[(key, False)][1]["accepted_runs"])
            wrongly = [x for x in r["accepted_runs"] if x in good]
            ctx.extra[key.replace("conformance", "binding_demo")] = dict(
                corrupted_runs=len([1 for x in good if x in set(r["accepted_runs"]) | set(r["rejected"])]),
                wrongly_accepted=len(wrongly))
            if wrongly and not getattr(ctx, "allviol", None):
                raise vlib.Infra("B-conf (%s) accepted %d corrupted traces: the trace specification does not bind"
                                 % (model, len(wrongly)))
            continue
        ctx.extra[key] = dict(runs=r["total"], accepted=r["accepted"], rejected=len(r["rejected"]),
                              rejected_runs=[dict(run=x, stuck_at=r["stuck"].get(x)) for x in r["rejected"][:20]])
        for run in r["rejected"][:5]:
            print("MODEL-DRIFT: run %s is not a behaviour of %s (stuck at %s)" %
                  (run, model, json.dumps((r["stuck"].get(run) or {}).get("line"))[:300]))
            ctx.drift.append("run %s not explained by %s" % (run, model))


def half_duplex_ok(actions):
    """A behaviour is in the HTTP domain when, until the client has closed its
    send side or the context has ended, the handler neither replies nor
    returns and the client does not wait for a reply."""
    closed = False
    for name, arg in actions:
        if name in ("StartClose", "Cancel"):
            closed = True
        if name in ("StartHSend", "StartSendHeader", "StartRecv", "StartHeader", "HReturnDo") and not closed:
            return False
    return True


def handle_model_counterexample(ctx, r, kind, tr="inproc", model="InprocStream"):
    """A TLC counterexample on L1 is a lead: replay its schedule on the real
    code; B-mon decides. Not reproducible => the model is wrong => exit 2."""
    acts = bgen.parse_actions(r["stdout"])
    sc = bgen.stream_script(acts, kind, tr, "cex-%s" % kind, ctx.seed)
    v = run_scripts(ctx, [dict(sc, id="cex-%s-%d" % (kind, i), seed=ctx.seed + i) for i in range(40)],
                    "cex-%s-%s" % (tr, kind), shards=1)
    if not v:
        raise vlib.Infra("TLC counterexample on %s (%s, %s) is not reproducible on the real code: "
                         "the model is wrong\n%s" % (model, kind, r["violated"], r["stdout"][-1500:]))
    ctx.drift.append("L1 counterexample of %s for %s reproduced on the real code: %s" % (model, kind, r["violated"]))


def run_pinned(ctx):
    """Pinned reproducers of the open findings of this property."""
    scripts = []
    for k in load_known():
        if k["property"] == ctx.prop and k.get("repro") and k["repro"].get("kind") == "script":
            for i in range(k["repro"].get("repeat", 1)):
                sc = k["repro"]["script"]
                scripts.append(dict(sc, id="%s-%d" % (k["id"], i), seed=sc.get("seed", 1) + i))
    if scripts:
        run_scripts(ctx, scripts, "pinned", shards=1)


def check_C01(ctx):
    family_a(ctx, {"nfree_q": 200, "nfree_t": 5000, "extra": [("sizes", 256), ("chain", 150)]})


def check_C02(ctx):
    family_a(ctx, {"extra": [("card", 45), ("early", 45), ("gc", 12), ("chain", 45)]})
    # "every way the response can be cut short": recorded real replies (a stream's
    # and a unary call's) cut at every byte offset must never be a success
    # (Framing!ChkCut, the same cases as in C07's check)
    cuts = [{"fam": "cutgen", "k": k, "big": False} for k in ([1, 3] if ctx.quick else [0, 1, 2, 3, 5])]
    cuts += [{"fam": "cutgen", "unary": True, "k": 1, "big": b} for b in (False, True)]
    l2_stateless(ctx, "Framing", "framing",
                 "recorded real reply bodies of a stream and of a unary call cut at every byte offset, fed to the real clients",
                 expr="{}", extra_cases=cuts, chk="ChkAny", sig_keys=("fam", "kind", "cut"))


def check_C03(ctx):
    family_a(ctx, {"nsim_q": 220, "nsim_t": 3500})


def check_C04(ctx):
    family_a(ctx, {"nunary_q": 300, "nunary_t": 3000, "nsim_q": 220, "nsim_t": 3500, "extra": [("gc", 12)]})
    # "deadlines ... reach the handler": real (wall-clock) caller deadlines through
    # the real HTTP client and server, with and without outgoing metadata --
    # Deadline!PropCases judged by Deadline!ChkProp (the cases of C09's check)
    l2_stateless(ctx, "Deadline", "deadline",
                 "Deadline!PropCases: caller deadlines from 100 us to 23 days through the real HTTP client and server; the "
                 "handler must have a deadline, not later than the caller's (transit + 1 ms) and not spuriously early",
                 expr="PropCases", sig_keys=("fam", "kind", "mant", "exp"))


def check_C05(ctx):
    family_a(ctx, {"extra": [("early", 90), ("stall", 45), ("card", 90), ("overrun", 36)]})
    # the net/http environment in which a reply gets out before the request has
    # ended (more than 256 KiB unread: OverrunN): HttpStream exhaustively, and the
    # same with the reader goroutine as it was before the repair of KF-23
    # (DrainFirst) -- that one must violate C05_NoStuck, or the check is vacuous
    hb = (2, 1, 2) if ctx.quick else (2, 2, 2)
    jobs = []
    for (rq, rs) in STREAM_KINDS:
        kind = bgen.kind_of(rq, rs)
        for df in (False, True):
            jobs.append(dict(module="MCHttpStream", view="ViewNoEv", name="L1-http-overrun%s-%s" % ("-drainfirst" if df else "", kind),
                             consts=http_stream_consts(rq, rs, *hb, closers='{"cs"}', kinds='{"cancel"}', overrun=2, drainfirst=df),
                             invariants=["TypeOK", "Refines", "NoPanic", "C05_NoStuck"], guard=df))
    res = ctx.tlc_many(jobs, timeout=900 if ctx.quick else 3000)
    for j, r in zip(jobs, res):
        if r["timed_out"]:
            raise vlib.Infra("%s timed out" % j["name"])
        if j["guard"]:
            if "C05_NoStuck" not in r["violated"]:
                raise vlib.Infra("%s: the pre-repair reader should get stuck (vacuity guard): %s" % (j["name"], r["violated"]))
        elif r["violated"]:
            # a counterexample of the model is a lead, never a verdict
            raise vlib.Infra("%s violates %s: inspect the model\n%s" % (j["name"], r["violated"], r["stdout"][-3000:]))
    ctx.rules.append("TLC, exhaustive: HttpStream with OverrunN = 2 (the server answers before the end of a long request), %s, all "
                     "three stream kinds: Refines, NoPanic, C05_NoStuck (which here also covers 'the final frame has left the "
                     "server'); with DrainFirst (the reader as before the repair of KF-23) C05_NoStuck is violated, as it must be"
                     % (hb,))
    if not ctx.quick:
        # the liveness form of C05 (temporal property under weak fairness of the
        # library's internal steps; no VIEW, no state constraint): once the
        # context is done -- or the handler has finished (and, over HTTP, the
        # client has closed its send side) -- every client operation returns
        for (rq, rs) in STREAM_KINDS:
            kind = bgen.kind_of(rq, rs)
            for module, consts in (
                    ("MCInprocStream", inproc_stream_consts(rq, rs, 1, 1, 2, hdr=1, closers='{"cs"}')),
                    ("MCHttpStream", http_stream_consts(rq, rs, 1, 1, 2, closers='{"cs"}', kinds='{"cancel"}'))):
                r = ctx.tlc(module, consts, properties=["C05_Live"], spec="FairSpec", name="live-%s-%s" % (module[2:], kind),
                            timeout=2400)
                if r["timed_out"]:
                    ctx.drift.append("liveness run %s/%s timed out" % (module, kind))
                elif not r["ok"]:
                    # a liveness counterexample of the model is a lead, never a verdict
                    raise vlib.Infra("C05_Live does not hold on %s (%s): inspect the model\n%s"
                                     % (module, kind, r["stdout"][-3000:]))
        ctx.rules.append("TLC, temporal: C05_Live under FairSpec on InprocStream and HttpStream (1,1,2), all three stream kinds")


def check_C08(ctx):
    family_a(ctx, {"extra": [("card", 135)]})


def check_C20(ctx):
    family_a(ctx, {"extra": [("stall", 150)]})


def pinned_cases(prop):
    """Pinned reproducer cases of the open findings of a tabular property."""
    out = []
    for k in load_known():
        if k["property"] == prop and k["status"] == "open" and k.get("repro", {}).get("kind") == "case":
            out += k["repro"]["cases"]
    return out


def run_cases(ctx, kind, cases_file, name=None):
    h = ctx.build()
    out = ctx.scratch.path("out-%s.ndjson" % (name or kind))
    p = vlib.run_harness(h, ["cases", "--kind", kind, "--in", cases_file, "--out", out, "--seed", str(ctx.seed)],
                         timeout=3000)
    if p.returncode != 0:
        crash = crash_event(p.stderr)
        if crash is None:
            raise vlib.Infra("case driver %s failed (rc=%d):\n%s" % (kind, p.returncode, p.stderr[-3000:]))
        # the process died from a panic on a goroutine of the library (one that
        # no caller can recover): an observable behaviour of the real code. The
        # cases judged so far stand; the crash is reported for this property.
        ncase = sum(1 for _ in open(out)) if os.path.exists(out) else 0
        ctx.add_violation(dict(prop=ctx.prop, why="process-crash-in-library", ev=kind, text=crash,
                               case=dict(fam="crash", after_cases=ncase, text=crash)))
    return out


def l2_stateless(ctx, base, kind, rule, expr="Cases", consts=None, sig_keys=(), extra_cases=None, chk="Chk"):
    """Generic check for a tabular specification: TLC enumerates the cases,
    the harness runs each on the real code, TLC judges the outcomes."""
    ctx.build()
    cases, r = vlib.gen_cases(ctx.scratch, base, expr=expr, consts=consts)
    ctx.states += r["states"]
    ctx.transitions += r["generated"]
    if extra_cases:
        with open(cases, "a") as f:
            for c in extra_cases:
                f.write(json.dumps(c) + "\n")
    out = run_cases(ctx, kind, cases)
    if not os.path.exists(out) or os.path.getsize(out) == 0:
        # (the driver crashed inside the library before any case was recorded;
        # run_cases has reported it)
        ctx.rules.append(rule)
        return dict(viol=[], consumed=0)
    j = vlib.monitor_cases(ctx.scratch, base, out, chk=chk)
    ctx.states += j["tlc_states"]
    ctx.transitions += j["tlc_generated"]
    n = j["consumed"]
    ctx.traces += n
    ctx.evaluations += n
    distinct = set()
    picks = {max(0, n // 5), n // 2, max(0, n - n // 5 - 1)}
    for i, line in enumerate(open(out)):
        distinct.add(line)
        if i in picks:
            ctx.samples.append(json.loads(line))
    ctx.distinct += len(distinct)
    ctx.rules.append(rule)
    for v in j["viol"]:
        c = v["case"]
        rec = dict(prop=ctx.prop, why=v["why"], case=c, ev=kind)
        for k in sig_keys:
            rec[k] = c.get(k)
        if "tr" not in rec and "tr" in c:
            rec["tr"] = c["tr"]
        ctx.add_violation(rec)
    return j


def check_C14(ctx):
    ctx.exhaustive = True
    l2_stateless(ctx, "StatusMap", "statusmap",
                 "all cases of StatusMap!Cases (codes 1..16, 17, 99, 0xFFFFFFFF x request cancelled x renderer "
                 "{default, writes nothing, custom 418}; HTTP statuses 100..599 without the status header), each run through "
                 "the real httpgrpc.Server and the real httpgrpc.Channel; distinct = distinct outcome records",
                 sig_keys=("fam", "code", "renderer", "cancelled", "status"))
    ctx.assumptions += ["DocTable is transcribed from the doc comment of DefaultErrorRenderer",
                        "the recorded reply is fed to the client through a replaying http.RoundTripper"]


def check_C07(ctx):
    ks = [0, 1, 3] if ctx.quick else [0, 1, 2, 3, 5, 8]
    extra = [{"fam": "cutgen", "k": k, "big": False} for k in ks] + [{"fam": "cutgen", "k": 3, "big": True}]
    extra += [{"fam": "cutgen", "unary": True, "k": 1, "big": b} for b in (False, True)]
    extra += [{"fam": "bytesgen", "n": 400 if ctx.quick else 4000, "seed": ctx.seed * 7919 + j} for j in range(1 if ctx.quick else 5)]
    l2_stateless(ctx, "Framing", "framing",
                 "all abstract tapes of Framing!Cases (0..2 complete messages, then nothing / every partial prefix / every "
                 "size class incl. 0, the 100 MiB limit, limit+1, 2^31-1, -2^31, trailer, over-long trailer / a valid or "
                 "undecodable trailer / junk after the trailer; clean and abrupt endings) materialised as bytes and decoded "
                 "by the real client stream (replaying RoundTripper) and the real server stream (crafted request body, "
                 "streaming and single-request); plus recorded real reply bodies -- of a stream and of a unary call -- cut at "
                 "every byte offset; plus seeded random byte strings (frames, random payloads, hostile sizes, garbage, cut "
                 "anywhere) mapped to tapes by reading size prefixes only and judged by the same Dec",
                 extra_cases=extra, chk="ChkAny", sig_keys=("fam", "side", "ending"))
    ctx.assumptions += ["allocation is measured as the delta of runtime.MemStats.TotalAlloc around the decode and compared "
                        "with the 100 MiB per-message limit plus 32 MiB slack",
                        "a body cut short is presented as net/http presents it: io.ErrUnexpectedEOF, or a clean io.EOF"]


def check_C09(ctx):
    import random
    rnd = random.Random(ctx.seed)
    extra = []
    for i in range(150 if ctx.quick else 3000):
        extra.append({"fam": "prop", "mant": rnd.randint(1, 9999), "exp": rnd.randint(2, 10), "kind": rnd.choice(["unary", "stream"])})
    for i in range(60 if ctx.quick else 1200):
        # long deadlines with a fraction of a second (beyond 8 digits of milliseconds)
        extra.append({"fam": "prop", "mant": rnd.randint(10 ** 8, 2 * 10 ** 9), "exp": 3, "kind": rnd.choice(["unary", "stream"])})
    for i in range(100 if ctx.quick else 2000):
        v = rnd.choice([rnd.randint(0, 99), rnd.randint(0, 99999999)])
        extra.append({"fam": "parse", "sign": "", "val": v, "digits": 0, "big": "no", "unit": rnd.choice("HMSmun"),
                      "lead": False, "trail": False})
    l2_stateless(ctx, "Deadline", "deadline",
                 "Deadline!Cases: GRPC-Timeout header shapes (every unit incl. invalid ones x representative 1..8 digit values "
                 "incl. the hour overflow boundary, over-long 9..25 digit values, signs, blanks, no digits) sent to the real "
                 "server with the handler's ctx.Deadline() measured; caller deadlines from 100 us to 10 years (plus seeded "
                 "random ones) through the real client and server over loopback with one-sided scaled measurements",
                 extra_cases=extra, sig_keys=("fam", "unit", "val", "digits", "sign", "kind"))
    # the arithmetic behind Deadline's constants and the repaired saturation, for
    # ALL values (TLC's integers are 32-bit and it cannot enumerate Nat): Apalache
    res = {inv: vlib.run_apalache(ctx.scratch, "TimeoutArith", inv) for inv in ("Saturates", "ThresholdLemma", "OldNeverNegative")}
    ctx.extra["apalache_TimeoutArith"] = res
    if res["Saturates"] != "holds" or res["ThresholdLemma"] != "holds":
        raise vlib.Infra("TimeoutArith: the specification's own arithmetic lemmas do not hold: %s" % res)
    if res["OldNeverNegative"] != "violated":
        raise vlib.Infra("TimeoutArith: the pre-repair formula should have a wrapping counterexample (vacuity guard): %s" % res)
    ctx.rules.append("Apalache (unbounded integers): TimeoutArith!Saturates -- the duration computed by the server's formula is "
                     "min(v * unit, MaxInt64) for every v in 0..2^63-1 and every unit -- and !ThresholdLemma -- an 8-digit "
                     "value overflows iff the unit is hours and the value is >= 2562048, the constants Deadline uses; the "
                     "pre-repair formula Wrap64(v * unit) has a negative counterexample")
    ctx.assumptions += ["instants are taken with Go's monotonic clock in one process and scaled outward into units < 2^30",
                        "tiny caller deadlines that expire before the handler runs are counted as conforming"]


def check_C12(ctx):
    n = 3 if ctx.quick else 4
    ctx.exhaustive = True
    l2_stateless(ctx, "Registry", "registry",
                 "Registry!NameCases(%d): every method name made of an optional leading slash and up to %d segments over "
                 "{registered service/method names, prefixes and suffixes of them, empty, '.', '..', junk} x registered sets x "
                 "{Invoke, NewStream} x {in-process, HTTP}; Registry!BaseCases: 10 base paths x {Server, HandleServices} x "
                 "methods over loopback HTTP; each call is made on the real code and the handlers that ran are recorded" % (n, n),
                 expr="NameCases(%d) \\cup BaseCases" % n, extra_cases=pinned_cases("C12"),
                 sig_keys=("fam", "tr", "kind", "slash", "name", "base", "carrier"))


def check_C15(ctx):
    n = 3 if ctx.quick else 4
    ctx.exhaustive = True
    l2_stateless(ctx, "Registry", "registry",
                 "Registry!HistCases(%d): every sequence of up to %d operations over {register one of 4 descriptors "
                 "(two share a name; one has no methods) well- or ill-typed, query 4 names, iterate, service info} replayed on "
                 "grpchan.HandlerMap, inprocgrpc.Channel and httpgrpc.Server; each observation is compared with the abstract "
                 "registry folded over the history and with grpc.Server.GetServiceInfo for the same registrations" % (n, n),
                 expr="HistCases(%d)" % n, sig_keys=("fam", "carrier"))


def check_C16(ctx):
    ctx.exhaustive = True
    l2_stateless(ctx, "Interceptors", "intercept",
                 "Interceptors!ServerCases: carrier {registry, in-process channel, HTTP server} x {unary, stream} x transport-level "
                 "interceptor behaviour x decoration stacks of depth 0..2 over {nil, pass, short-circuit, fail, rewrite} x other-kind "
                 "interceptor present x {InterceptServer, WithInterceptor}; the event word written by instrumented interceptors and "
                 "handlers, the result tokens, the info arguments and a before/after snapshot of the descriptor are judged",
                 expr="ServerCases \\cup ReuseCases", sig_keys=("fam", "carrier", "kind", "via", "t"))
    ctx.rules.append("Interceptors!ReuseCases: the same decorated description dispatched a second time by a carrier with "
                     "another transport-level interceptor (registry entry called with another interceptor argument; the "
                     "description registered with a second in-process channel): the second call's word and result")


def check_C17(ctx):
    n = 3
    ctx.exhaustive = True
    l2_stateless(ctx, "Interceptors", "intercept",
                 "Interceptors!ClientCases(%d): base channel {real grpc.ClientConn, in-process, HTTP} x {unary, stream} x wrapper "
                 "stacks of depth 0..%d, each layer a pair of unary/stream behaviours over {nil, pass, short-circuit, fail, rewrite}; "
                 "event word, result tokens, cc argument identity, arguments seen by the base channel, Unwrap identities" % (n, n),
                 expr="ClientCases(%d)" % n, sig_keys=("fam", "base", "kind"))


def check_C13(ctx):
    ctx.exhaustive = True
    l2_stateless(ctx, "Creds", "creds",
                 "Creds!Cases: {in-process, HTTP} x {http, https (httptest TLS server)} x credentials requiring security or not x "
                 "credential result {none, metadata, empty map, error} x caller metadata {none, disjoint, overlapping keys} x "
                 "{unary, streaming} x 0..2 grpc.Peer options x handler outcome {nil, non-OK status}; a counting RoundTripper, the handler's incoming metadata and peer "
                 "and the peer targets are recorded",
                 sig_keys=("tr", "scheme", "kind", "creds", "require"))


def check_C10(ctx):
    ctx.exhaustive = True
    l2_stateless(ctx, "CtxIsolation", "ctxiso",
                 "CtxIsolation!Cases: {unary, stream} x server interceptor present x {top-level call, call made from inside an "
                 "in-process handler, call made from inside a real gRPC handler} x caller deadline; the handler (and the "
                 "interceptor) evaluate every fact of CtxIsolation!Facts on their context: plain keys hidden, outgoing metadata "
                 "not outgoing, incoming metadata = caller's outgoing and not the enclosing call's, in-process peer, own method, "
                 "caller's deadline and cancellation, ClientContext back-door, metadata not aliased in either direction",
                 sig_keys=("kind", "nesting", "interceptor", "deadline"))


def check_C18(ctx):
    ctx.exhaustive = True
    l2_stateless(ctx, "Cloner", "cloner",
                 "Cloner!AdapterCases: {ProtoCloner, CodecCloner, CloneFunc, CopyFunc} x {Clone, Copy} x {test Message, HttpTrailer, "
                 "Duration} x all 64 subsets of {scalars, bytes, repeated Any, maps, nested Any, unknown fields} x source "
                 "representation {generated, dynamic} x destination {empty, populated, dynamic empty/populated, other message "
                 "type, non-proto pointer}; equality, a reflective disjointness walk of the heap graphs and a source snapshot "
                 "are recorded",
                 expr="AdapterCases", sig_keys=("fam", "adapter", "op", "type", "srcrep", "dst"))
    ctx.assumptions += ["the functions given to CloneFunc / CopyFunc are correct for equal-typed protobuf messages and return an "
                        "error otherwise", "descriptors and other per-type metadata are shared by design and excluded from the walk"]


def check_C06(ctx):
    # (a) no read of the caller's request after Invoke returned: family A (gates)
    family_a(ctx, {"nunary_q": 400, "nunary_t": 4000, "nsim_q": 60, "nsim_t": 600, "nfree_q": 40, "nfree_t": 400})
    # (b) no shared memory, destination overwritten, mutation after send invisible
    l2_stateless(ctx, "Cloner", "cloner",
                 "Cloner!RpcCases: in-process RPCs of every kind, both directions, with the default cloner and each of the four "
                 "adapters, for all 64 message shapes; the object the peer received is compared with the object sent (equality, "
                 "reflective disjointness walk), receive destinations are pre-filled, and the sender mutates its object right "
                 "after the send returned",
                 expr="RpcCases", sig_keys=("fam", "cloner", "kind", "dir"))


def check_C19(ctx):
    os.environ["VERIF_PLUGIN"] = vlib.build_plugin(ctx.scratch)
    n1, n2 = (4, 2) if ctx.quick else (5, 3)
    ctx.exhaustive = True
    regen = [{"fam": "regen", "proto": os.path.join(vlib.REPO, "grpchantesting", "test.proto"),
              "golden": os.path.join(vlib.REPO, "grpchantesting", "test.pb.grpchan.go"), "param": "legacy_stubs",
              "file": [], "legacynames": False, "style": "camel", "pkg": "flat"}]
    l2_stateless(ctx, "StubGen", "stubgen",
                 "StubGen!Cases(%d, %d): every file with one service of up to %d methods, or two services of up to %d methods "
                 "each, over {unary, server-, client-, bidi-streaming} in every interleaving x legacy_desc_names x {CamelCase, "
                 "snake_case} names x {flat, nested} package; the built plugin binary is run on a CodeGeneratorRequest made with "
                 "protoparse, its output parsed with go/parser and the path literal, call shape, Streams[i] index and "
                 "description symbol of every client method extracted; plus byte-exact regeneration of the checked-in stubs"
                 % (n1, n2, n1, n2),
                 expr="Cases(%d, %d) \\cup MultiCases(2, 1)" % (n1, n2), extra_cases=regen,
                 sig_keys=("fam", "legacynames", "style", "pkg"))
    ctx.rules.append("StubGen!MultiCases(2, 1): the request names further files to generate (one without services before / "
                     "after the file under test, one with a service of its own before it): same stubs for the file under "
                     "test, one output file per file with services")
    ctx.assumptions += ["go/parser accepting the output is what 'valid Go' means here (no type check against generated pb.go)",
                        "descriptors come from protoparse instead of protoc"]


def check_C11(ctx):
    ctx.exhaustive = True
    l2_stateless(ctx, "HttpGate", "gate",
                 "all request shapes of HttpGate!Cases (method x target x content type x header class x GRPC-Timeout class x "
                 "body class x {Server, HandleServices}), each sent to the real handler through httptest; the reply is parsed "
                 "(status, X-GRPC-Status, frames, trailer) and judged by HttpGate!Chk",
                 sig_keys=("method", "target", "ctype", "hdr", "timeout", "body", "carrier"))
    # "no request makes the server panic or emit a malformed reply": HttpGate has
    # four classes of GRPC-Timeout; every header shape of Deadline!ParseCases
    # (the cases of C09's check) must get a well-formed reply too
    l2_stateless(ctx, "Deadline", "deadline",
                 "Deadline!ParseCases: every GRPC-Timeout header shape (valid and invalid units, 1..25 digits, signs, blanks, "
                 "no digits) sent to the real server: no panic, a well-formed reply (Deadline!ChkGate)",
                 expr="ParseCases", chk="ChkGate", sig_keys=("fam", "unit", "val", "digits", "sign"))
    ctx.assumptions += ["the grpchantesting.TestServer handlers are the application code; a counter wraps them",
                        "body classes are chosen to be decisively valid or invalid (a truncated unary protobuf that happens to "
                        "decode is not used)"]


CHECKS = {
    "C01": check_C01, "C02": check_C02, "C03": check_C03, "C04": check_C04, "C05": check_C05,
    "C08": check_C08, "C20": check_C20,
    "C14": check_C14, "C11": check_C11, "C07": check_C07, "C09": check_C09, "C12": check_C12, "C15": check_C15, "C16": check_C16, "C17": check_C17, "C13": check_C13, "C10": check_C10, "C18": check_C18, "C06": check_C06, "C19": check_C19,
}
