#!/usr/bin/env python3
"""Entry point of every registered check:  check.py <ID> [--tier quick|thorough]
[--replay file].  Exit 0: the property held on everything explored (listed
known findings are reported as KNOWN-FINDING lines); exit 1: a violation that
is not a listed finding (VIOLATION line with a replay file); exit 2:
infrastructure failure (never a verdict)."""
import argparse
import json
import os
import sys
import time
import traceback

sys.path.insert(0, os.path.dirname(os.path.abspath(__file__)))
import vlib  # noqa: E402


def main():
    ap = argparse.ArgumentParser()
    ap.add_argument("prop")
    ap.add_argument("--tier", default=os.environ.get("VERIF_TIER", "quick"))
    ap.add_argument("--replay", default=None)
    ap.add_argument("--keep", action="store_true")
    a = ap.parse_args()
    tier = a.tier if a.tier in ("quick", "thorough") else "quick"
    try:
        seed = int(os.environ.get("VERIF_SEED", "1"))
    except ValueError:
        seed = 1
    import props
    if a.prop not in props.CHECKS:
        print("no check for", a.prop)
        sys.exit(2)
    scratch = vlib.Scratch(a.prop)
    t0 = time.time()
    rc = 2
    try:
        ctx = props.Ctx(a.prop, tier, seed, scratch, replay=a.replay)
        props.CHECKS[a.prop](ctx)
        rc = ctx.finish(time.time() - t0)
    except vlib.Infra as e:
        vlib.log("INFRASTRUCTURE FAILURE:", e)
        rc = 2
    except Exception:
        traceback.print_exc()
        rc = 2
    finally:
        if not a.keep:
            scratch.cleanup()
        else:
            vlib.log("scratch kept:", scratch.dir)
    sys.exit(rc)


if __name__ == "__main__":
    main()
