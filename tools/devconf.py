#!/usr/bin/env python3
"""Development aid: record runs on a transport and validate them against an L1
model (B-conf), printing the rejected runs. Not registered in MANIFEST.json.
usage: devconf.py <module> <trs> <what> <n> <seed> [keepdir]"""
import json, os, sys
sys.path.insert(0, os.path.dirname(os.path.abspath(__file__)))
import vlib, props, bgen

def http_conf_consts(flags):
    return props.http_conf_consts(flags)

def main():
    module, trs, what, n, seed = sys.argv[1], sys.argv[2], sys.argv[3], int(sys.argv[4]), int(sys.argv[5])
    sc = vlib.Scratch("devconf")
    os.environ.setdefault("VERIF_EVIDENCE_DIR", sc.sub("ev"))
    try:
        run(sc, module, trs, what, n, seed)
    finally:
        sc.cleanup()


def run(sc, module, trs, what, n, seed):
    if True:
        ctx = props.Ctx("DEV", "quick", seed, sc)
        scripts = []
        for w in what.split(","):
            scripts += props.gen_scripts(ctx, w, n, trs, seed)
        if "sim" in sys.argv[6:]:
            scripts = []
            for req, resp in props.STREAM_KINDS:
                kind = bgen.kind_of(req, resp)
                consts = props.http_stream_consts(req, resp, 2, 3, 3, closers='{"cs"}' if "gated" in sys.argv[6:] else '{"cs", "cs2"}')
                beh = bgen.simulate(sc, "MCHttpStream", consts, n, 40, seed, "devsim-" + kind, files=props.mc_files())
                for j, b in enumerate(beh):
                    scripts.append(bgen.stream_script(b, kind, trs.split(",")[0], "sim-%s-%d" % (kind, j), seed * 1000 + j,
                                                      gated="http" if "gated" in sys.argv[6:] else False))
        props.run_scripts(ctx, scripts, "dev")
        import collections; print("violations:", sorted(collections.Counter((v["prop"], v["why"]) for v in getattr(ctx, "allviol", [])).items()))
        d = sc.path("run-dev")
        files = sorted(os.path.join(d, f) for f in os.listdir(d)
                       if f.startswith("t") and ".ndjson" in f and not f.endswith((".meta", ".journal")))
        consts = props.conf_consts if module == "TraceInprocStream" else props.http_conf_consts
        kinds = props.CONF_KINDS
        if module == "TraceInprocUnary":
            kinds = {"unary": (False, False)}
            consts = lambda flags: {"NH": 60, "MaxHdr": 20, "MaxTrl": 20, "Outcomes": '{"resp", "nilresp", "err", "resperr"}',
                                    "CancelKinds": '{"cancel", "deadline"}', "FixClosed": "TRUE", "FixDecode": "TRUE",
                                    "Known": "{}"}
        r = vlib.conform(sc, module, files, kinds, consts, "dev", trs=("http",) if "http" in trs else ("inproc",))
        print(json.dumps({k: r[k] for k in ("total", "accepted", "states")}), "rejected", r["rejected"][:30])
        metas = {}
        for f in files:
            metas.update(vlib.load_meta(f))
        with open(os.environ.get("REJ_OUT", "/tmp/devconf-rejected.ndjson"), "w") as rf:
            for x in r["rejected"]:
                if x in metas:
                    rf.write(json.dumps(metas[x]) + "\n")
        for x in r["rejected"]:
            print("STUCK", x, json.dumps(r["stuck"].get(x))[:400])
        rej = set(r["rejected"][:int(os.environ.get("SHOW", "0"))])
        for f in files:
            for line in open(f):
                j = json.loads(line)
                if j.get("run") in rej:
                    j.pop("nb", None)
                    print(json.dumps(j, separators=(",", ":"))[:300])

main()
