package main

import (
	"context"
	"errors"
	"fmt"
	"io"
	"math/rand"
	"sort"
	"strconv"
	"strings"

	"github.com/golang/protobuf/proto"
	"google.golang.org/grpc/codes"
	"google.golang.org/grpc/metadata"
	"google.golang.org/grpc/status"
	"google.golang.org/protobuf/types/known/anypb"
	"google.golang.org/protobuf/types/known/durationpb"
	"google.golang.org/protobuf/types/known/wrapperspb"

	gt "github.com/fullstorydev/grpchan/grpchantesting"
)

// ---------------------------------------------------------------------------
// messages

// msgClass names the shape of a generated message; it is recorded with the
// script so that known findings can be keyed by class.
var msgClasses = []string{"empty", "zero-payload", "small", "fields", "maps", "any", "medium", "large"}

// boundarySizes: encoded message sizes around every power of two from 8 bytes
// to 128 KiB (buffer and chunk boundaries of the transports live there)
var boundarySizes = func() []int {
	var out []int
	for k := 3; k <= 17; k++ {
		for d := -8; d <= 8; d++ {
			if n := (1 << uint(k)) + d; n >= 4 {
				out = append(out, n)
			}
		}
	}
	return out
}()

// sizedMessage returns a message whose encoding has exactly n bytes (n >= 4):
// one bytes field, tag + length varint + random payload.
func sizedMessage(r *rand.Rand, n int) *gt.Message {
	l := n - 2
	for ; l > 0; l-- {
		v := 1
		for x := l; x >= 128; x >>= 7 {
			v++
		}
		if 1+v+l == n {
			break
		}
	}
	m := &gt.Message{Payload: randBytes(r, l)}
	if proto.Size(m) != n {
		// no payload length gives exactly n (cannot happen for n >= 4): nearest
		m = &gt.Message{Payload: randBytes(r, n-3)}
	}
	return m
}

func genMessage(r *rand.Rand, class string, tag int) *gt.Message {
	m := &gt.Message{}
	if strings.HasPrefix(class, "sized:") {
		// message number tag of the script takes the (base+tag)-th boundary size
		base, _ := strconv.Atoi(class[len("sized:"):])
		return sizedMessage(r, boundarySizes[(base+tag)%len(boundarySizes)])
	}
	switch class {
	case "empty":
		// all fields at their zero value: encodes to zero bytes
	case "zero-payload":
		m.Payload = []byte{}
		m.Count = int32(tag)
	case "small":
		m.Payload = []byte(fmt.Sprintf("p%d-%d", tag, r.Intn(1000)))
		m.Count = int32(tag)
	case "fields":
		m.Payload = randBytes(r, 1+r.Intn(40))
		m.Count = int32(r.Int31()) - (1 << 30)
		m.Code = int32(r.Intn(20))
		m.DelayMillis = int32(r.Int31())
	case "maps":
		m.Payload = randBytes(r, r.Intn(8))
		m.Headers = map[string][]byte{}
		m.Trailers = map[string][]byte{}
		for i, n := 0, 1+r.Intn(4); i < n; i++ {
			m.Headers[fmt.Sprintf("k%d", r.Intn(6))] = randBytes(r, r.Intn(12))
			m.Trailers[fmt.Sprintf("t%d", r.Intn(6))] = randBytes(r, r.Intn(12))
		}
		m.Headers[""] = nil
	case "any":
		m.Count = int32(tag)
		for i, n := 0, 1+r.Intn(3); i < n; i++ {
			var inner proto.Message
			switch r.Intn(3) {
			case 0:
				inner = wrapperspb.String(fmt.Sprintf("s%d", r.Intn(100)))
			case 1:
				inner = durationpb.New(0)
			default:
				inner = &gt.Message{Payload: randBytes(r, r.Intn(10)), Count: int32(i)}
			}
			a, _ := anypb.New(proto.MessageV2(inner))
			m.ErrorDetails = append(m.ErrorDetails, a)
		}
	case "medium":
		m.Payload = randBytes(r, 4096+r.Intn(60000))
		m.Count = int32(tag)
	case "large":
		m.Payload = randBytes(r, (1<<20)+r.Intn(3<<20))
		m.Count = int32(tag)
	default:
		m.Payload = []byte(fmt.Sprintf("m%d", tag))
		m.Count = int32(tag)
	}
	return m
}

func randBytes(r *rand.Rand, n int) []byte {
	b := make([]byte, n)
	r.Read(b)
	return b
}

// internMsg returns the index (1-based) of a message of table equal to got.
// Among equal candidates it prefers the smallest index above last, so that
// indistinguishable messages never look reordered; 0 if nothing is equal.
func internMsg(table []*gt.Message, last int, got *gt.Message) int {
	first := 0
	for i, m := range table {
		if proto.Equal(m, got) {
			if i+1 > last {
				return i + 1
			}
			if first == 0 {
				first = i + 1
			}
		}
	}
	return first
}

// ---------------------------------------------------------------------------
// metadata

// genMD makes the metadata of operation op (1-based) of a family ("h", "t",
// "r"). Every value is tagged with the operation so that a view decomposes
// uniquely. Values of plain keys are printable ASCII without surrounding
// blanks (blanks at the ends are a class of their own, see known findings);
// values of -bin keys are arbitrary bytes.
func genMD(r *rand.Rand, fam string, op int, binUTF8Only bool) metadata.MD {
	md := metadata.MD{}
	keys := []string{fam + "-a", fam + "-b", "shared", fam + "-c-bin", fam + "-d-bin"}
	n := 1 + r.Intn(3)
	for i := 0; i < n; i++ {
		k := keys[r.Intn(len(keys))]
		nv := 1 + r.Intn(2)
		for j := 0; j < nv; j++ {
			var v string
			if strings.HasSuffix(k, "-bin") {
				if binUTF8Only {
					v = fmt.Sprintf("%s%d.%d.%d-é\x00\n", fam, op, i, j)
				} else {
					v = fmt.Sprintf("%s%d.%d.%d", fam, op, i, j) + string([]byte{0x00, 0x0a, 0xff, byte(r.Intn(256)), 0xfe})
				}
			} else {
				v = fmt.Sprintf("%s%d.%d.%d:", fam, op, i, j) + printable(r, r.Intn(6)) + "x"
			}
			md[k] = append(md[k], v)
		}
	}
	return md
}

func printable(r *rand.Rand, n int) string {
	b := make([]byte, n)
	for i := range b {
		b[i] = byte(0x20 + r.Intn(0x7f-0x20))
	}
	return string(b)
}

func keysOf(ops []metadata.MD) map[string]bool {
	u := map[string]bool{}
	for _, md := range ops {
		for k := range md {
			u[k] = true
		}
	}
	return u
}

func restrict(md metadata.MD, u map[string]bool) map[string][]string {
	out := map[string][]string{}
	for k, v := range md {
		if u[strings.ToLower(k)] && len(v) > 0 {
			out[strings.ToLower(k)] = append(out[strings.ToLower(k)], v...)
		}
	}
	return out
}

func sameMD(a, b map[string][]string) bool {
	if len(a) != len(b) {
		return false
	}
	for k, va := range a {
		vb, ok := b[k]
		if !ok || len(va) != len(vb) {
			return false
		}
		for i := range va {
			if va[i] != vb[i] {
				return false
			}
		}
	}
	return true
}

// viewOf projects a metadata value onto the operations it is the join of:
// the increasing sequence of operation indices (1-based) whose join, in
// order, equals md on the keys the operations use; [0] if there is none.
func viewOf(md metadata.MD, ops []metadata.MD) []int {
	u := keysOf(ops)
	got := restrict(md, u)
	n := len(ops)
	// subsets by increasing size, then lexicographic
	var subsets [][]int
	for mask := 0; mask < 1<<uint(n); mask++ {
		var s []int
		for i := 0; i < n; i++ {
			if mask&(1<<uint(i)) != 0 {
				s = append(s, i)
			}
		}
		subsets = append(subsets, s)
	}
	sort.SliceStable(subsets, func(i, j int) bool { return len(subsets[i]) < len(subsets[j]) })
	for _, s := range subsets {
		j := metadata.MD{}
		for _, i := range s {
			j = metadata.Join(j, ops[i])
		}
		if sameMD(got, restrict(j, u)) {
			v := make([]int, len(s))
			for x, i := range s {
				v[x] = i + 1
			}
			return v
		}
	}
	return []int{0}
}

// ---------------------------------------------------------------------------
// statuses

type hStatus struct {
	Class string
	Err   error          // what the handler returns
	Norm  *status.Status // what the standard server makes of it
	Ctx   bool           // a context error
}

// normalizeHandlerErr is what grpc-go's server does with a handler's error:
// a status error is used as is, anything else goes through
// status.FromContextError.
func normalizeHandlerErr(err error) *status.Status {
	if err == nil {
		return status.New(codes.OK, "")
	}
	if s, ok := status.FromError(err); ok {
		return s
	}
	return status.FromContextError(err)
}

var statusClasses = []string{"plain", "empty-msg", "colon", "percent", "nonascii", "details", "code-oor", "goerr", "ctx-canceled", "ctx-deadline", "ioeof", "wrapped",
	"ctx-canceled-wrapped", "ctx-deadline-wrapped"}

func genStatus(r *rand.Rand, class string) hStatus {
	code := codes.Code(1 + r.Intn(16))
	var err error
	ctx := false
	switch class {
	case "plain":
		err = status.Error(code, fmt.Sprintf("boom %d", r.Intn(100)))
	case "empty-msg":
		err = status.Error(code, "")
	case "colon":
		err = status.Error(code, "a:b: c :")
	case "percent":
		err = status.Error(code, "100% %41 %zz")
	case "nonascii":
		err = status.Error(code, "héllo wörld ☃")
	case "details":
		s := status.New(code, "with details")
		n := 1 + r.Intn(3)
		var ds []interface{ ProtoReflect() }
		_ = ds
		st := s.Proto()
		for i := 0; i < n; i++ {
			var a *anypb.Any
			if r.Intn(2) == 0 {
				a, _ = anypb.New(wrapperspb.String(fmt.Sprintf("d%d", i)))
			} else {
				a, _ = anypb.New(proto.MessageV2(&gt.Message{Count: int32(i), Payload: randBytes(r, 5)}))
			}
			st.Details = append(st.Details, a)
		}
		err = status.FromProto(st).Err()
	case "code-oor":
		err = status.Error(codes.Code([]uint32{17, 99, 1000}[r.Intn(3)]), "out of range code")
	case "goerr":
		err = errors.New("plain go error")
	case "ctx-canceled":
		err = context.Canceled
		ctx = true
	case "ctx-deadline":
		err = context.DeadlineExceeded
		ctx = true
	case "ctx-canceled-wrapped":
		// what a handler gets back from a downstream call made with its own
		// context (*url.Error, fmt.Errorf("...: %w", ctx.Err())): a standard
		// server finds the context error inside (status.FromContextError)
		err = fmt.Errorf("backend lookup failed: %w", context.Canceled)
		ctx = true
	case "ctx-deadline-wrapped":
		err = fmt.Errorf("backend lookup failed: %w", context.DeadlineExceeded)
		ctx = true
	case "ioeof":
		err = io.EOF
	case "wrapped":
		err = fmt.Errorf("wrapped: %w", status.Error(code, "inner"))
	default:
		err = status.Error(code, "x")
	}
	return hStatus{Class: class, Err: err, Norm: normalizeHandlerErr(err), Ctx: ctx}
}

func equalStatus(a, b *status.Status) bool {
	if a.Code() != b.Code() {
		return false
	}
	if strings.ToValidUTF8(a.Message(), "�") != strings.ToValidUTF8(b.Message(), "�") {
		return false
	}
	da, db := a.Proto().GetDetails(), b.Proto().GetDetails()
	if len(da) != len(db) {
		return false
	}
	for i := range da {
		if !proto.Equal(da[i], db[i]) {
			return false
		}
	}
	return true
}

// classify projects an error returned to a user of the library: nil, io.EOF,
// or an error seen through status.Convert (code, index of the equal handler
// status, 0 if none) plus whether it was a status error at all.
func classify(err error, table []hStatus) map[string]interface{} {
	if err == nil {
		return map[string]interface{}{"k": "nil", "code": 0, "st": 0, "raw": false}
	}
	if err == io.EOF {
		return map[string]interface{}{"k": "eof", "code": -1, "st": 0, "raw": true}
	}
	s, ok := status.FromError(err)
	if !ok {
		s = status.Convert(err)
	}
	st := 0
	for i, h := range table {
		if equalStatus(h.Norm, s) {
			st = i + 1
			break
		}
	}
	return map[string]interface{}{"k": "err", "code": int(s.Code()), "st": st, "raw": !ok, "text": trunc(err.Error(), 80)}
}

func trunc(s string, n int) string {
	if len(s) > n {
		return s[:n]
	}
	return s
}
