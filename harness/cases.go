package main

import (
	"bufio"
	"encoding/json"
	"flag"
	"fmt"
	"os"
)

// cmdCases runs enumerated cases of one of the tabular (L2) specifications on
// the real code and writes one outcome record per case.
func cmdCases(args []string) {
	fs := flag.NewFlagSet("cases", flag.ExitOnError)
	kind := fs.String("kind", "", "which specification the cases belong to")
	in := fs.String("in", "", "cases (NDJSON)")
	out := fs.String("out", "", "outcomes (NDJSON)")
	seed := fs.Int64("seed", 1, "seed")
	fs.Parse(args)
	var fn func(map[string]interface{}) map[string]interface{}
	switch *kind {
	case "statusmap":
		fn = statusCase
	default:
		if f, ok := caseKinds[*kind]; ok {
			fn = f
		} else {
			fmt.Fprintln(os.Stderr, "unknown case kind", *kind)
			os.Exit(2)
		}
	}
	caseSeed = *seed
	f, err := os.Open(*in)
	if err != nil {
		fmt.Fprintln(os.Stderr, err)
		os.Exit(2)
	}
	o, err := os.Create(*out)
	if err != nil {
		fmt.Fprintln(os.Stderr, err)
		os.Exit(2)
	}
	w := bufio.NewWriterSize(o, 1<<20)
	sc := bufio.NewScanner(f)
	sc.Buffer(make([]byte, 1<<20), 64<<20)
	n := 0
	for sc.Scan() {
		var c map[string]interface{}
		if err := json.Unmarshal(sc.Bytes(), &c); err != nil {
			fmt.Fprintln(os.Stderr, "bad case:", err)
			os.Exit(2)
		}
		r := fn(c)
		if multi, ok := r["_multi"].([]map[string]interface{}); ok {
			for _, m := range multi {
				b, _ := json.Marshal(m)
				w.Write(b)
				w.WriteByte('\n')
				n++
			}
			continue
		}
		b, _ := json.Marshal(r)
		w.Write(b)
		w.WriteByte('\n')
		n++
	}
	w.Flush()
	o.Close()
	fmt.Printf("{\"cases\":%d}\n", n)
}

var caseKinds = map[string]func(map[string]interface{}) map[string]interface{}{}
var caseSeed int64
