// The repository's go.mod says "go 1.18", so programs built from it get the
// pre-1.22 http.ServeMux pattern semantics. The harness must behave alike
// whatever "go" line the toolchain writes into its own go.mod.
//
//go:debug httpmuxgo121=1
package main

import (
	"bufio"
	"encoding/json"
	"flag"
	"fmt"
	"os"
)

func main() {
	if len(os.Args) < 2 {
		fmt.Fprintln(os.Stderr, "usage: verifharness <cmd> [flags]")
		os.Exit(2)
	}
	switch os.Args[1] {
	case "gen":
		cmdGen(os.Args[2:])
	case "cases":
		cmdCases(os.Args[2:])
	case "calls":
		cmdCalls(os.Args[2:])
	default:
		fmt.Fprintln(os.Stderr, "unknown command", os.Args[1])
		os.Exit(2)
	}
}

// cmdCalls runs call scripts (one JSON script per line) and writes the trace.
func cmdCalls(args []string) {
	fs := flag.NewFlagSet("calls", flag.ExitOnError)
	in := fs.String("scripts", "", "NDJSON file of scripts")
	out := fs.String("out", "", "trace output (NDJSON)")
	start := fs.Int("start", 0, "index of the first script to run")
	shard := fs.Int("shard", 0, "shard index")
	shards := fs.Int("shards", 1, "number of shards")
	firstRun := fs.Int("firstrun", 1, "first run number")
	fs.Parse(args)

	f, err := os.Open(*in)
	if err != nil {
		fmt.Fprintln(os.Stderr, err)
		os.Exit(2)
	}
	var scripts []*Script
	rd := bufio.NewReaderSize(f, 1<<20)
	dec := json.NewDecoder(rd)
	for dec.More() {
		var s Script
		if err := dec.Decode(&s); err != nil {
			fmt.Fprintln(os.Stderr, "bad script:", err)
			os.Exit(2)
		}
		scripts = append(scripts, &s)
	}
	sink, err := NewSink(*out, *firstRun)
	if err != nil {
		fmt.Fprintln(os.Stderr, err)
		os.Exit(2)
	}
	e := NewEngine()
	journal, _ := os.Create(*out + ".journal")
	code := 0
	for i := *start; i < len(scripts); i++ {
		if i%*shards != *shard {
			continue
		}
		sc := scripts[i]
		fmt.Fprintf(journal, "%d\n", i)
		var evs []Ev
		if sc.Mode == "free" {
			evs = e.RunFree(sc)
		} else {
			evs = e.RunSched(sc)
		}
		for _, p := range takePanics() {
			evs = append(evs, Ev{"ev": "Panic", "call": 1, "actor": p[0], "op": "", "text": trunc(p[1], 120)})
		}
		for _, per := range splitByCall(evs) {
			sink.Add(per, sc)
		}
		if e.infraErr != "" {
			fmt.Fprintf(os.Stderr, "INFRA %d %s\n", i, e.infraErr)
			fmt.Fprintf(journal, "stuck %d\n", i)
			code = 3
			break
		}
	}
	if code == 0 {
		fmt.Fprintf(journal, "done\n")
	}
	journal.Close()
	sink.Close()
	e.Close()
	sum, _ := json.Marshal(map[string]interface{}{"runs": sink.Runs, "distinct": sink.Distinct, "events": sink.Events})
	fmt.Println(string(sum))
	os.Exit(code)
}
