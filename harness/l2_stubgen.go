package main

import (
	"bytes"
	"fmt"
	"go/ast"
	"go/parser"
	"go/token"
	"os"
	"os/exec"
	"strconv"
	"strings"

	"github.com/golang/protobuf/proto"
	"github.com/jhump/protoreflect/desc"
	"github.com/jhump/protoreflect/desc/protoparse"
	"google.golang.org/protobuf/types/descriptorpb"
	"google.golang.org/protobuf/types/pluginpb"
)

// C19: the protoc plugin. The built plugin binary ($VERIF_PLUGIN) is fed a
// CodeGeneratorRequest made from proto source parsed with protoparse (no
// protoc needed) and its output is parsed with go/parser.

func init() { caseKinds["stubgen"] = stubgenCase }

func camel(s string) string {
	// protoc-gen-go's CamelCase
	lower := func(c byte) bool { return 'a' <= c && c <= 'z' }
	digit := func(c byte) bool { return '0' <= c && c <= '9' }
	if s == "" {
		return ""
	}
	t := make([]byte, 0, 32)
	i := 0
	if s[0] == '_' {
		t = append(t, 'X')
		i++
	}
	for ; i < len(s); i++ {
		c := s[i]
		if c == '_' && i+1 < len(s) && lower(s[i+1]) {
			continue
		}
		if digit(c) {
			t = append(t, c)
			continue
		}
		if lower(c) {
			c ^= ' '
		}
		t = append(t, c)
		for i+1 < len(s) && lower(s[i+1]) {
			i++
			t = append(t, s[i])
		}
	}
	return string(t)
}

type genMethod struct{ name, kind string }
type genService struct {
	name    string
	methods []genMethod
}

func protoSource(c map[string]interface{}) (string, string, []genService) {
	pkg := "pkg"
	if c["pkg"] == "nested" {
		pkg = "top.mid.leaf"
	}
	snake := c["style"] == "snake"
	var svcs []genService
	var b strings.Builder
	fmt.Fprintf(&b, "syntax = \"proto3\";\npackage %s;\noption go_package = \"example.com/gen/out;out\";\nmessage Req {}\nmessage Resp {}\n", pkg)
	for i, si := range c["file"].([]interface{}) {
		name := fmt.Sprintf("Svc%c", 'A'+i)
		if snake {
			name = fmt.Sprintf("svc_%c_x", 'a'+i)
		}
		s := genService{name: name}
		fmt.Fprintf(&b, "service %s {\n", name)
		for j, ki := range si.([]interface{}) {
			k := ki.(string)
			mn := fmt.Sprintf("Meth%c%d", 'A'+j, j)
			if snake {
				mn = fmt.Sprintf("meth_%c_%d", 'a'+j, j)
			}
			in, outp := "Req", "Resp"
			if k == "CS" || k == "BI" {
				in = "stream Req"
			}
			if k == "SS" || k == "BI" {
				outp = "stream Resp"
			}
			fmt.Fprintf(&b, "  rpc %s (%s) returns (%s);\n", mn, in, outp)
			s.methods = append(s.methods, genMethod{mn, k})
		}
		b.WriteString("}\n")
		svcs = append(svcs, s)
	}
	return b.String(), pkg, svcs
}

func runPlugin(files map[string]string, toGen []string, param string) (*pluginpb.CodeGeneratorResponse, error) {
	p := protoparse.Parser{Accessor: protoparse.FileContentsFromMap(files)}
	fds, err := p.ParseFiles(toGen...)
	if err != nil {
		return nil, fmt.Errorf("harness: protoparse: %v", err)
	}
	seen := map[string]bool{}
	var all []*descriptorpb.FileDescriptorProto
	var add func(fd *desc.FileDescriptor)
	add = func(fd *desc.FileDescriptor) {
		if seen[fd.GetName()] {
			return
		}
		seen[fd.GetName()] = true
		for _, d := range fd.GetDependencies() {
			add(d)
		}
		all = append(all, fd.AsFileDescriptorProto())
	}
	for _, fd := range fds {
		add(fd)
	}
	req := &pluginpb.CodeGeneratorRequest{FileToGenerate: toGen, ProtoFile: all}
	if param != "" {
		req.Parameter = proto.String(param)
	}
	in, err := proto.Marshal(req)
	if err != nil {
		return nil, err
	}
	cmd := exec.Command(os.Getenv("VERIF_PLUGIN"))
	cmd.Stdin = bytes.NewReader(in)
	var stdout, stderr bytes.Buffer
	cmd.Stdout, cmd.Stderr = &stdout, &stderr
	if err := cmd.Run(); err != nil {
		return nil, fmt.Errorf("plugin failed: %v: %s", err, trunc(stderr.String(), 200))
	}
	var resp pluginpb.CodeGeneratorResponse
	if err := proto.Unmarshal(stdout.Bytes(), &resp); err != nil {
		return nil, err
	}
	if resp.Error != nil {
		return nil, fmt.Errorf("plugin error: %s", resp.GetError())
	}
	return &resp, nil
}

func stubgenCase(c map[string]interface{}) (out map[string]interface{}) {
	out = map[string]interface{}{}
	for k, v := range c {
		out[k] = v
	}
	out["panicked"] = false
	out["parses"], out["pathsok"], out["descok"] = false, true, true
	out["stubs"] = [][]interface{}{}
	out["regs"], out["nstubs"], out["same"] = 0, 0, false
	defer func() {
		if r := recover(); r != nil {
			out["panicked"] = true
			out["text"] = trunc(fmt.Sprint(r), 160)
		}
	}()
	if c["fam"] == "regen" {
		src, err := os.ReadFile(c["proto"].(string))
		if err != nil {
			panic(err)
		}
		resp, err := runPlugin(map[string]string{"test.proto": string(src)}, []string{"test.proto"}, c["param"].(string))
		if err != nil {
			panic(err)
		}
		want, err := os.ReadFile(c["golden"].(string))
		if err != nil {
			panic(err)
		}
		out["same"] = len(resp.File) == 1 && resp.File[0].GetContent() == string(want)
		if len(resp.File) == 1 {
			out["outname"] = resp.File[0].GetName()
		}
		return out
	}
	src, pkg, svcs := protoSource(c)
	param := "legacy_stubs"
	legacy := c["legacynames"].(bool)
	if legacy {
		param += ",legacy_desc_names"
	}
	files := map[string]string{"case.proto": src}
	toGen := []string{"case.proto"}
	if others, ok := c["others"].(string); ok {
		files["types.proto"] = "syntax = \"proto3\";\npackage other.types;\noption go_package = \"example.com/gen/types;types\";\nmessage OnlyAMessage {}\n"
		files["othersvc.proto"] = "syntax = \"proto3\";\npackage other.svc;\noption go_package = \"example.com/gen/othersvc;othersvc\";\nmessage A {}\nservice Neighbour { rpc Ping (A) returns (A); rpc Watch (A) returns (stream A); }\n"
		switch others {
		case "types-before":
			toGen = []string{"types.proto", "case.proto"}
		case "types-after":
			toGen = []string{"case.proto", "types.proto"}
		case "svc-before":
			toGen = []string{"othersvc.proto", "case.proto"}
		case "types-and-svc-before":
			toGen = []string{"othersvc.proto", "types.proto", "case.proto"}
		}
	}
	resp, err := runPlugin(files, toGen, param)
	if err != nil {
		panic(err)
	}
	out["outfiles"] = len(resp.File)
	var mine *pluginpb.CodeGeneratorResponse_File
	for _, f := range resp.File {
		if strings.HasSuffix(f.GetName(), "case.pb.grpchan.go") {
			mine = f
		}
	}
	if mine == nil {
		out["text"] = fmt.Sprintf("%d output files, none for the file under test", len(resp.File))
		return out
	}
	code := mine.GetContent()
	fset := token.NewFileSet()
	f, perr := parser.ParseFile(fset, "out.go", code, 0)
	if perr != nil {
		out["text"] = trunc(perr.Error(), 160)
		return out
	}
	out["parses"] = true
	// expected names
	type key struct{ svc, meth int }
	recv := map[string]int{} // receiver type -> service index
	descVar := map[int]string{}
	for i, s := range svcs {
		cn := camel(s.name)
		recv[strings.ToLower(cn[:1])+cn[1:]+"ChannelClient"] = i
		if legacy {
			descVar[i] = "_" + cn + "_serviceDesc"
		} else {
			descVar[i] = cn + "_ServiceDesc"
		}
	}
	var stubs [][]interface{}
	regs := 0
	pathsok, descok := true, true
	for _, d := range f.Decls {
		fd, ok := d.(*ast.FuncDecl)
		if !ok {
			continue
		}
		if fd.Recv == nil {
			if strings.HasPrefix(fd.Name.Name, "RegisterHandler") {
				regs++
				// which service? body: reg.RegisterService(&<desc>, srv)
				svcIdx := -1
				for i, s := range svcs {
					if fd.Name.Name == "RegisterHandler"+camel(s.name) {
						svcIdx = i
					}
				}
				found := ""
				ast.Inspect(fd.Body, func(n ast.Node) bool {
					if u, ok := n.(*ast.UnaryExpr); ok && u.Op == token.AND {
						if id, ok := u.X.(*ast.Ident); ok {
							found = id.Name
						}
					}
					return true
				})
				if svcIdx < 0 || found != descVar[svcIdx] {
					descok = false
				}
			}
			continue
		}
		// method of a channel client?
		rt := ""
		if se, ok := fd.Recv.List[0].Type.(*ast.StarExpr); ok {
			if id, ok := se.X.(*ast.Ident); ok {
				rt = id.Name
			}
		}
		si, ok := recv[rt]
		if !ok {
			continue
		}
		mi := -1
		for j, m := range svcs[si].methods {
			if camel(m.name) == fd.Name.Name {
				mi = j
			}
		}
		shape, idx := "", -1
		hasSend, hasClose := false, false
		ast.Inspect(fd.Body, func(n ast.Node) bool {
			ce, ok := n.(*ast.CallExpr)
			if !ok {
				return true
			}
			sel, ok := ce.Fun.(*ast.SelectorExpr)
			if !ok {
				return true
			}
			switch sel.Sel.Name {
			case "SendMsg":
				hasSend = true
			case "CloseSend":
				hasClose = true
			case "Invoke", "NewStream":
				pathArg := 1
				if sel.Sel.Name == "NewStream" {
					pathArg = 2
					shape = "stream"
					// &<desc>.Streams[<idx>]
					if u, ok := ce.Args[1].(*ast.UnaryExpr); ok {
						if ie, ok := u.X.(*ast.IndexExpr); ok {
							if bl, ok := ie.Index.(*ast.BasicLit); ok {
								idx, _ = strconv.Atoi(bl.Value)
							}
							if se, ok := ie.X.(*ast.SelectorExpr); ok {
								if id, ok := se.X.(*ast.Ident); !ok || id.Name != descVar[si] || se.Sel.Name != "Streams" {
									descok = false
								}
							}
						}
					}
				} else {
					shape = "invoke"
				}
				want := ""
				if mi >= 0 {
					want = "/" + pkg + "." + svcs[si].name + "/" + svcs[si].methods[mi].name
				}
				if bl, ok := ce.Args[pathArg].(*ast.BasicLit); !ok || bl.Value != strconv.Quote(want) {
					pathsok = false
				}
			}
			return true
		})
		if shape == "stream" && hasSend && hasClose {
			shape = "stream-send-close"
		} else if shape == "stream" && (hasSend || hasClose) {
			shape = "stream-partial"
		}
		stubs = append(stubs, []interface{}{si + 1, mi + 1, shape, idx})
	}
	if stubs == nil {
		stubs = [][]interface{}{}
	}
	out["stubs"], out["nstubs"], out["regs"] = stubs, len(stubs), regs
	out["pathsok"], out["descok"] = pathsok, descok
	return out
}
