package main

import (
	"fmt"
	"math/rand"
)

// Op is one operation of an actor's program.
type Op struct {
	Name  string `json:"op"`
	Arg   int    `json:"arg,omitempty"`
	Arg2  int    `json:"arg2,omitempty"`
	Empty bool   `json:"empty,omitempty"` // SetHeader / SendHeader with empty metadata
}

// Script is one experiment on one RPC (or Calls concurrent copies of it): the
// programs of the client's sender and receiver threads and of the handler, a
// schedule (the order in which the scheduler starts the next operation of a
// thread, waiting for the system to come to rest in between) and the data
// classes. In "free" mode there is no schedule: the threads just run.
type Script struct {
	ID      string   `json:"id"`
	Kind    string   `json:"kind"`  // unary | cstream | sstream | bidi
	Tr      string   `json:"tr"`    // inproc | httpmem | http | ref
	Mode    string   `json:"mode"`  // sched | free
	CS      []Op     `json:"cs"`    // Send, CloseSend
	CS2     []Op     `json:"cs2"`   // CloseSend (a second sender-side goroutine)
	CR      []Op     `json:"cr"`    // Invoke | Recv, RecvAll, Header, Trailer
	H       []Op     `json:"h"`     // Recv, RecvAll, Send, SetHeader, SendHeader, SetTrailer, WaitCtx, Return
	Sched   []string `json:"sched"` // cs | cr | h | cancel | deadline
	ReqMD   bool     `json:"reqmd"`
	MsgCls  string   `json:"msgcls"`
	StCls   []string `json:"stcls"` // classes of the handler status table (index 1..)
	NHdr    int      `json:"nhdr"`
	NTrl    int      `json:"ntrl"`
	Seed    int64    `json:"seed"`
	CancelN int      `json:"canceln"`          // free mode: cancel when this many events were logged (0 = never)
	CancelW string   `json:"cancelw"`          // cancel | deadline
	Cloner  string   `json:"cloner"`           // inproc: "" | codec | clonefunc | copyfunc
	Calls   int      `json:"calls"`            // concurrent copies (free mode)
	TrlBin  string   `json:"trlbin,omitempty"` // "raw": -bin trailer values are arbitrary bytes on every transport
	ViaCtx  bool     `json:"viactx"`           // handler sets metadata through grpc.SetHeader(ctx,…)
	Fault   string   `json:"fault"`            // "" | clone-fail:<n> | copy-fail:<n>
	Gates   []string `json:"gates,omitempty"`
	Chain   bool     `json:"chain,omitempty"` // free mode, unary: the calls run one after the other; every second one succeeds
	Slow    bool     `json:"slow,omitempty"`  // httpmem, free mode: replies trickle in (see memTransport)
}

func (s *Script) respStream() bool { return s.Kind == "sstream" || s.Kind == "bidi" }
func (s *Script) reqStream() bool  { return s.Kind == "cstream" || s.Kind == "bidi" }

func count(ops []Op, name string) int {
	n := 0
	for _, o := range ops {
		if o.Name == name {
			n++
		}
	}
	return n
}

func maxArg(ops []Op, name string) int {
	n := 0
	for _, o := range ops {
		if o.Name == name && o.Arg > n {
			n = o.Arg
		}
	}
	return n
}

// number numbers the Send ops (arg = message index) and metadata ops
// (arg = op index) of a program in order of appearance.
func number(ops []Op) []Op {
	out := make([]Op, len(ops))
	c := map[string]int{}
	for i, o := range ops {
		switch o.Name {
		case "Send", "SetHeader", "SendHeader", "SetTrailer":
			if o.Empty {
				// a header operation with empty metadata: number 0
				o.Arg = 0
				break
			}
			key := o.Name
			if key == "SendHeader" {
				key = "SetHeader"
			}
			c[key]++
			o.Arg = c[key]
		}
		out[i] = o
	}
	return out
}

// cooperativeScript builds a free-running script in which every thread can
// finish on its own: the client sends, closes, and receives to the end; the
// handler receives to the end (or its single request), replies, and returns.
func cooperativeScript(r *rand.Rand, kind, tr string, id string) *Script {
	s := &Script{ID: id, Kind: kind, Tr: tr, Mode: "free", Seed: r.Int63(), Calls: 1}
	s.ReqMD = r.Intn(4) != 0
	s.MsgCls = msgClasses[r.Intn(len(msgClasses)-2)]
	if r.Intn(12) == 0 {
		s.MsgCls = "medium"
	}
	if r.Intn(60) == 0 {
		s.MsgCls = "large"
	}
	nreq, nresp := 1, 1
	if s.reqStream() {
		nreq = r.Intn(5)
	}
	if s.respStream() {
		nresp = r.Intn(5)
	}
	st := 0
	if r.Intn(3) == 0 {
		st = 1
		s.StCls = []string{statusClasses[r.Intn(len(statusClasses))]}
	}
	var h []Op
	nh := r.Intn(3)
	nt := r.Intn(3)
	for i := 0; i < nh; i++ {
		if r.Intn(4) == 0 {
			h = append(h, Op{Name: "SendHeader"})
		} else {
			h = append(h, Op{Name: "SetHeader"})
		}
	}
	// now and then a header operation carries no metadata at all (SendHeader(nil)
	// is the "flush the headers" idiom)
	for i := range h {
		if r.Intn(6) == 0 {
			h[i].Empty = true
		}
	}
	// SendHeader must be last among header ops for the script to be a legal use
	seenSend := false
	for i := range h {
		if seenSend {
			h[i].Name = "SetTrailer"
			h[i].Empty = false
		}
		if h[i].Name == "SendHeader" {
			seenSend = true
		}
	}
	if kind == "unary" {
		s.CR = []Op{{Name: "Invoke"}}
		h = append([]Op{{Name: "Recv"}}, h...)
		for i := 0; i < nt; i++ {
			h = append(h, Op{Name: "SetTrailer"})
		}
		nr := 1
		if st != 0 {
			nr = 0
		}
		h = append(h, Op{Name: "Return", Arg: st, Arg2: nr})
	} else {
		for i := 0; i < nreq; i++ {
			s.CS = append(s.CS, Op{Name: "Send"})
		}
		s.CS = append(s.CS, Op{Name: "CloseSend"})
		if r.Intn(3) == 0 {
			s.CR = append(s.CR, Op{Name: "Header"})
		}
		s.CR = append(s.CR, Op{Name: "RecvAll"})
		if s.reqStream() {
			h = append([]Op{{Name: "RecvAll"}}, h...)
		} else {
			h = append([]Op{{Name: "Recv"}}, h...)
		}
		if st != 0 && r.Intn(2) == 0 && s.respStream() {
			nresp = r.Intn(3)
		}
		if st != 0 && !s.respStream() {
			nresp = 0
		}
		for i := 0; i < nresp; i++ {
			h = append(h, Op{Name: "Send"})
		}
		for i := 0; i < nt; i++ {
			h = append(h, Op{Name: "SetTrailer"})
		}
		h = append(h, Op{Name: "Return", Arg: st})
	}
	s.H = number(h)
	s.CS = number(s.CS)
	s.NHdr = maxArg(s.H, "SetHeader")
	if m := maxArg(s.H, "SendHeader"); m > s.NHdr {
		s.NHdr = m
	}
	s.NTrl = maxArg(s.H, "SetTrailer")
	s.ViaCtx = r.Intn(3) == 0
	return s
}

func (s *Script) String() string {
	return fmt.Sprintf("%s/%s/%s cs=%v cr=%v h=%v sched=%v", s.Kind, s.Tr, s.Mode, s.CS, s.CR, s.H, s.Sched)
}
