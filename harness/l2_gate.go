package main

import (
	"bytes"
	"context"
	"encoding/base64"
	"encoding/binary"
	"fmt"
	"io"
	"net/http"
	"net/http/httptest"
	"strconv"
	"strings"
	"sync/atomic"

	"github.com/golang/protobuf/proto"
	"google.golang.org/protobuf/encoding/protojson"

	"github.com/fullstorydev/grpchan"
	gt "github.com/fullstorydev/grpchan/grpchantesting"
	"github.com/fullstorydev/grpchan/httpgrpc"
)

// C11: gatekeeping of the HTTP server.

type countingServer struct {
	gt.TestServer
	n int32
}

func (s *countingServer) Unary(ctx context.Context, req *gt.Message) (*gt.Message, error) {
	atomic.AddInt32(&s.n, 1)
	return s.TestServer.Unary(ctx, req)
}
func (s *countingServer) ClientStream(cs gt.TestService_ClientStreamServer) error {
	atomic.AddInt32(&s.n, 1)
	return s.TestServer.ClientStream(cs)
}
func (s *countingServer) ServerStream(req *gt.Message, ss gt.TestService_ServerStreamServer) error {
	atomic.AddInt32(&s.n, 1)
	return s.TestServer.ServerStream(req, ss)
}
func (s *countingServer) BidiStream(str gt.TestService_BidiStreamServer) error {
	atomic.AddInt32(&s.n, 1)
	return s.TestServer.BidiStream(str)
}

func init() { caseKinds["gate"] = gateCase }

func gateMsg() *gt.Message {
	return &gt.Message{Payload: []byte("gate-payload"), Count: 2, Headers: map[string][]byte{"rh": []byte("v")}}
}

func frame(b []byte, end bool) []byte {
	var buf bytes.Buffer
	sz := int32(len(b))
	if end {
		sz = -sz
	}
	binary.Write(&buf, binary.BigEndian, sz)
	buf.Write(b)
	return buf.Bytes()
}

func gateRequest(c map[string]interface{}) (*http.Request, bool) {
	target := c["target"].(string)
	path := map[string]string{"U": "/grpchantesting.TestService/Unary", "CS": "/grpchantesting.TestService/ClientStream",
		"SS": "/grpchantesting.TestService/ServerStream", "BD": "/grpchantesting.TestService/BidiStream",
		"unknown": "/grpchantesting.TestService/Nope"}[target]
	ct := map[string]string{"unary": "application/x-protobuf", "unary-charset": "application/x-protobuf; charset=utf-8",
		"unary-upper": "APPLICATION/X-PROTOBUF", "json": "application/json", "json-charset": "application/json;charset=UTF-8",
		"stream": "application/x-httpgrpc-proto+v1", "stream-param": "application/x-httpgrpc-proto+v1; x=y",
		"text": "text/plain", "none": "", "garbage": ";;;=garbage/",
		"unary-longer": "application/x-protobuf-v2", "json-longer": "application/jsonp; charset=utf-8",
		"stream-longer": "application/x-httpgrpc-proto+v10", "unary-prefix": "application/x-proto"}[c["ctype"].(string)]
	isJSON := strings.HasPrefix(c["ctype"].(string), "json")
	pb, _ := proto.Marshal(gateMsg())
	var body []byte
	switch c["body"].(string) {
	case "valid":
		if target == "U" || target == "unknown" {
			if isJSON {
				body, _ = protojson.Marshal(proto.MessageV2(gateMsg()))
			} else {
				body = pb
			}
		} else if target == "SS" {
			body = frame(pb, false)
		} else {
			m2 := gateMsg()
			m2.Count = -1 // half-duplex for the test service's bidi handler
			pb2, _ := proto.Marshal(m2)
			body = append(frame(pb2, false), frame(pb2, false)...)
		}
	case "empty":
		body = []byte{}
	case "garbage":
		if target == "U" || target == "unknown" {
			if isJSON {
				body = []byte("{not json")
			} else {
				body = []byte{0xff, 0xff, 0xff, 0xff, 0xff, 0xff, 0xff, 0xff, 0xff, 0xff, 0xff, 0x01}
			}
		} else {
			body = []byte{0x7f, 0xff, 0xff, 0xff, 0x01, 0x02}
		}
	case "truncated":
		if target == "U" || target == "unknown" {
			if isJSON {
				b, _ := protojson.Marshal(proto.MessageV2(gateMsg()))
				body = b[:len(b)-3]
			} else {
				body = pb[:len(pb)-3]
			}
		} else {
			f := frame(pb, false)
			body = f[:len(f)-3]
		}
	}
	req := httptest.NewRequest(strings.ToUpper(c["method"].(string)), path, bytes.NewReader(body))
	req.Method = c["method"].(string)
	if ct != "" {
		req.Header.Set("Content-Type", ct)
	}
	switch c["hdr"].(string) {
	case "valid-bin":
		req.Header.Set("K-Bin", base64.URLEncoding.EncodeToString([]byte{0, 1, 2, 0xff}))
		req.Header.Set("Plain", "v")
	case "bad-bin":
		req.Header.Set("K-Bin", "!!!not base64!!!")
	}
	switch c["timeout"].(string) {
	case "ok":
		req.Header.Set("GRPC-Timeout", "5S")
	case "bad":
		req.Header.Set("GRPC-Timeout", "xyz")
	case "expired":
		req.Header.Set("GRPC-Timeout", "1n")
	}
	return req, isJSON
}

// parseStreamBody splits a streaming reply into frames.
func parseStreamBody(b []byte) (nframes, ntrailers int, wellformed bool, trailer *httpgrpc.HttpTrailer) {
	wellformed = true
	for len(b) > 0 {
		if len(b) < 4 {
			return nframes, ntrailers, false, trailer
		}
		sz := int32(binary.BigEndian.Uint32(b[:4]))
		b = b[4:]
		end := false
		if sz < 0 {
			sz = -sz
			end = true
		}
		if int(sz) > len(b) || sz < 0 {
			return nframes, ntrailers, false, trailer
		}
		payload := b[:sz]
		b = b[sz:]
		if end {
			ntrailers++
			var tr httpgrpc.HttpTrailer
			if err := proto.Unmarshal(payload, &tr); err != nil {
				wellformed = false
			} else {
				trailer = &tr
			}
			if len(b) > 0 {
				wellformed = false // something after the trailer frame
			}
		} else {
			if ntrailers > 0 {
				wellformed = false
			}
			nframes++
		}
	}
	return
}

func serveGate(carrier string, svc *countingServer, req *http.Request) *http.Response {
	rec := httptest.NewRecorder()
	if carrier == "server" {
		s := httpgrpc.NewServer()
		gt.RegisterTestServiceServer(s, svc)
		s.ServeHTTP(rec, req)
	} else {
		reg := grpchan.HandlerMap{}
		gt.RegisterTestServiceServer(reg, svc)
		var mux http.ServeMux
		httpgrpc.HandleServices(mux.HandleFunc, "/", reg, nil, nil)
		mux.ServeHTTP(rec, req)
	}
	return rec.Result()
}

func gateCase(c map[string]interface{}) (out map[string]interface{}) {
	out = map[string]interface{}{}
	for k, v := range c {
		out[k] = v
	}
	out["panicked"] = false
	out["http"] = 0
	out["app"] = 0
	out["grpc"] = -2
	out["shape"] = "plain"
	out["nframes"] = 0
	out["ntrailers"] = 0
	out["wellformed"] = true
	out["twin"] = true
	out["allow"] = false
	defer func() {
		if r := recover(); r != nil {
			out["panicked"] = true
			out["text"] = trunc(fmt.Sprint(r), 100)
		}
	}()
	req, isJSON := gateRequest(c)
	svc := &countingServer{}
	res := serveGate(c["carrier"].(string), svc, req)
	body, _ := io.ReadAll(res.Body)
	out["http"] = res.StatusCode
	out["app"] = int(atomic.LoadInt32(&svc.n))
	out["allow"] = res.Header.Get("Allow") != ""
	if h := res.Header.Get("X-GRPC-Status"); h != "" {
		p := strings.SplitN(h, ":", 2)
		if n, err := strconv.Atoi(p[0]); err == nil {
			out["grpc"] = n
		}
	}
	target := c["target"].(string)
	if target != "U" && target != "unknown" && res.StatusCode == 200 && strings.HasPrefix(res.Header.Get("Content-Type"), "application/x-httpgrpc") {
		out["shape"] = "stream"
		nf, nt, wf, tr := parseStreamBody(body)
		out["nframes"], out["ntrailers"], out["wellformed"] = nf, nt, wf
		if tr != nil {
			out["grpc"] = int(tr.Code)
		}
	} else if target == "U" && res.StatusCode == 200 {
		out["shape"] = "unary"
	}
	if isJSON && target == "U" && c["body"] == "valid" || isJSON && target == "U" && c["body"] == "empty" {
		// the protobuf twin of this request must give the same projected reply
		c2 := map[string]interface{}{}
		for k, v := range c {
			c2[k] = v
		}
		c2["ctype"] = "unary"
		req2, _ := gateRequest(c2)
		svc2 := &countingServer{}
		res2 := serveGate(c["carrier"].(string), svc2, req2)
		body2, _ := io.ReadAll(res2.Body)
		same := res.StatusCode == res2.StatusCode && res.Header.Get("X-GRPC-Status") == res2.Header.Get("X-GRPC-Status")
		if same && res.StatusCode == 200 {
			var a, b gt.Message
			e1 := protojson.Unmarshal(body, proto.MessageV2(&a))
			e2 := proto.Unmarshal(body2, &b)
			// the test service echoes its incoming metadata, which contains the
			// (different) content types: compare the rest of the reply
			a.Headers, b.Headers = nil, nil
			same = e1 == nil && e2 == nil && proto.Equal(&a, &b)
		}
		out["twin"] = same
	}
	return out
}
