package main

import (
	"bytes"
	"context"
	"fmt"
	"io"
	"net/http"
	"net/http/httptest"
	"net/url"
	"strconv"
	"strings"

	"google.golang.org/grpc"
	"google.golang.org/grpc/codes"
	"google.golang.org/grpc/status"

	gt "github.com/fullstorydev/grpchan/grpchantesting"
	"github.com/fullstorydev/grpchan/httpgrpc"
)

// C14: status codes over the unary HTTP mapping.

type replayRT struct {
	status int
	header http.Header
	body   []byte
}

func (r *replayRT) RoundTrip(req *http.Request) (*http.Response, error) {
	if req.Body != nil {
		io.Copy(io.Discard, req.Body)
		req.Body.Close()
	}
	return &http.Response{
		StatusCode: r.status, Status: strconv.Itoa(r.status) + " " + http.StatusText(r.status),
		Proto: "HTTP/1.1", ProtoMajor: 1, ProtoMinor: 1,
		Header: r.header.Clone(), Body: io.NopCloser(bytes.NewReader(r.body)), ContentLength: int64(len(r.body)), Request: req,
	}, nil
}

type fixedUnary struct{ err error }

func (f *fixedUnary) isVerifSvc() {}

func fixedDesc(err error) *grpc.ServiceDesc {
	return &grpc.ServiceDesc{
		ServiceName: "verif.Svc", HandlerType: (*vsvc)(nil),
		Methods: []grpc.MethodDesc{{MethodName: "U", Handler: func(srv interface{}, ctx context.Context, dec func(interface{}) error, _ grpc.UnaryServerInterceptor) (interface{}, error) {
			m := new(gt.Message)
			if e := dec(m); e != nil {
				return nil, e
			}
			if _, ok := ctx.Deadline(); ok {
				// the case wants the call's deadline (GRPC-Timeout) to have
				// passed before the handler returns
				<-ctx.Done()
			}
			if err != nil {
				return nil, err
			}
			return m, nil
		}}},
	}
}

func codeOf(c int) codes.Code {
	if c < 0 {
		return codes.Code(0xFFFFFFFF)
	}
	return codes.Code(uint32(c))
}

func codeInt(c codes.Code) int { return int(int32(uint32(c))) }

func statusCase(c map[string]interface{}) (out map[string]interface{}) {
	out = map[string]interface{}{}
	for k, v := range c {
		out[k] = v
	}
	out["panicked"] = false
	out["http"] = 0
	out["hdr"] = -2
	out["client"] = 0
	defer func() {
		if r := recover(); r != nil {
			out["panicked"] = true
			out["text"] = trunc(fmt.Sprint(r), 100)
		}
	}()
	u, _ := url.Parse("http://x.invalid/")
	var rt *replayRT
	if c["fam"] == "server" {
		code := codeOf(int(c["code"].(float64)))
		herr := status.Error(code, "msg: with colon")
		var opts []httpgrpc.ServerOption
		switch c["renderer"] {
		case "nothing":
			opts = append(opts, httpgrpc.ErrorRenderer(func(context.Context, *status.Status, http.ResponseWriter) {}))
		case "custom418":
			opts = append(opts, httpgrpc.ErrorRenderer(func(_ context.Context, _ *status.Status, w http.ResponseWriter) {
				http.Error(w, "teapot", 418)
			}))
		}
		srv := httpgrpc.NewServer(opts...)
		srv.RegisterService(fixedDesc(herr), &fixedUnary{})
		body := []byte{}
		req := httptest.NewRequest("POST", "/verif.Svc/U", bytes.NewReader(body))
		req.Header.Set("Content-Type", httpgrpc.UnaryRpcContentType_V1)
		if c["cancelled"].(bool) {
			ctx, cancel := context.WithCancel(context.Background())
			cancel()
			req = req.WithContext(ctx)
		}
		if e, _ := c["expired"].(bool); e {
			req.Header.Set("GRPC-Timeout", "1n")
		}
		rec := httptest.NewRecorder()
		srv.ServeHTTP(rec, req)
		res := rec.Result()
		out["http"] = res.StatusCode
		if h := res.Header.Get("X-GRPC-Status"); h != "" {
			p := strings.SplitN(h, ":", 2)
			if n, err := strconv.ParseInt(p[0], 10, 64); err == nil {
				out["hdr"] = int(int32(n))
			} else {
				out["hdr"] = -3
			}
		}
		b, _ := io.ReadAll(res.Body)
		rt = &replayRT{status: res.StatusCode, header: res.Header, body: b}
	} else {
		st := int(c["status"].(float64))
		h := http.Header{}
		h.Set("Content-Type", httpgrpc.UnaryRpcContentType_V1)
		rt = &replayRT{status: st, header: h, body: []byte{}}
	}
	ch := &httpgrpc.Channel{Transport: rt, BaseURL: u}
	err := ch.Invoke(context.Background(), "/verif.Svc/U", &gt.Message{}, &gt.Message{})
	if err != nil {
		out["client"] = codeInt(status.Convert(err).Code())
		if out["client"] == 0 {
			out["client"] = -9 // an error whose code is OK
		}
	}
	return out
}
