package main

import (
	"bytes"
	"runtime"
	"strconv"
	"strings"
	"time"
)

// Goroutine park detection. The scheduler drives the real code one
// controllable step at a time and must know when the system has come to rest:
// every goroutine of the process other than the scheduler's own is parked in a
// blocking wait (channel, select, mutex, condition, I/O wait) and stays so.
// The information comes from the headers of runtime.Stack(all).

type gInfo struct {
	id    int64
	state string
	lib   bool // has a frame in grpchan/inprocgrpc or grpchan/httpgrpc
	harn  bool // is running the harness's stand-in for user code (handler, client actor)
	pipe  bool // is parked in a read or write of an io.Pipe (only the library makes them: the request body of an HTTP stream)
	top   string
}

var stackBuf = make([]byte, 1<<20)

func goroutines() []gInfo {
	var n int
	for {
		n = runtime.Stack(stackBuf, true)
		if n < len(stackBuf) {
			break
		}
		stackBuf = make([]byte, 2*len(stackBuf))
	}
	var out []gInfo
	for _, blk := range bytes.Split(stackBuf[:n], []byte("\n\n")) {
		if !bytes.HasPrefix(blk, []byte("goroutine ")) {
			continue
		}
		nl := bytes.IndexByte(blk, '\n')
		hdr := blk
		body := []byte{}
		if nl >= 0 {
			hdr = blk[:nl]
			body = blk[nl+1:]
		}
		// goroutine 18 [chan receive, 2 minutes]:
		rest := hdr[len("goroutine "):]
		sp := bytes.IndexByte(rest, ' ')
		if sp < 0 {
			continue
		}
		id, _ := strconv.ParseInt(string(rest[:sp]), 10, 64)
		lb := bytes.IndexByte(rest, '[')
		rb := bytes.LastIndexByte(rest, ']')
		st := ""
		if lb >= 0 && rb > lb {
			st = string(rest[lb+1 : rb])
			if c := strings.IndexByte(st, ','); c >= 0 {
				st = st[:c]
			}
		}
		g := gInfo{id: id, state: st}
		g.lib = bytes.Contains(body, []byte("grpchan/inprocgrpc.")) || bytes.Contains(body, []byte("grpchan/httpgrpc."))
		// the harness's stand-ins for user code: the scripted handler and the
		// client actors are methods of callRun (package main); the in-memory
		// HTTP transport is environment, not user code
		g.harn = bytes.Contains(body, []byte("main.(*callRun)."))
		g.pipe = bytes.Contains(body, []byte("io.(*pipe).read")) || bytes.Contains(body, []byte("io.(*pipe).write"))
		if l := bytes.IndexByte(body, '\n'); l >= 0 {
			g.top = string(body[:l])
		}
		out = append(out, g)
	}
	return out
}

func myGoid() int64 {
	var b [64]byte
	n := runtime.Stack(b[:], false)
	f := strings.Fields(string(b[:n]))
	if len(f) < 2 {
		return -1
	}
	id, _ := strconv.ParseInt(f[1], 10, 64)
	return id
}

func active(state string) bool {
	switch state {
	case "running", "runnable", "syscall", "sleep", "copystack", "preempted", "waiting", "idle", "dead", "":
		return true
	}
	return false
}

// quiesce waits until every goroutine except the caller is parked for `polls`
// consecutive observations spaced `gap` apart. It returns false if that did
// not happen within max (an infrastructure failure, never a verdict).
func quiesce(self int64, polls int, gap time.Duration, max time.Duration) bool {
	deadline := time.Now().Add(max)
	ok := 0
	for {
		allParked := true
		for _, g := range goroutines() {
			if g.id == self {
				continue
			}
			if active(g.state) {
				allParked = false
				break
			}
		}
		if allParked {
			ok++
			if ok >= polls {
				return true
			}
		} else {
			ok = 0
		}
		if time.Now().After(deadline) {
			return false
		}
		if gap > 0 {
			time.Sleep(gap)
		} else {
			runtime.Gosched()
		}
	}
}

// libGoroutines counts goroutines that still have a frame of the library and
// are not exempt (the client actors, and a handler goroutine while the handler
// body is running: those are reported by the scheduler as blocked operations).
func libGoroutines(exempt map[int64]bool) (int, []string) {
	n := 0
	var tops []string
	for _, g := range goroutines() {
		if g.lib && !exempt[g.id] {
			n++
			tops = append(tops, g.top)
		}
	}
	return n, tops
}
