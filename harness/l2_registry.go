package main

import (
	"context"
	"fmt"
	"net/http"
	"net/http/httptest"
	"net/url"
	"reflect"
	"runtime"
	"sort"
	"strings"
	"sync"

	"google.golang.org/grpc"
	"google.golang.org/grpc/status"

	"github.com/fullstorydev/grpchan"
	gt "github.com/fullstorydev/grpchan/grpchantesting"
	"github.com/fullstorydev/grpchan/httpgrpc"
	"github.com/fullstorydev/grpchan/inprocgrpc"
)

// C12 and C15: method-name resolution and the registry.

func init() { caseKinds["registry"] = registryCase }

type ranLog struct {
	mu  sync.Mutex
	ran [][]string
}

func (r *ranLog) add(svc, m string) {
	r.mu.Lock()
	r.ran = append(r.ran, []string{svc, m})
	r.mu.Unlock()
}

type regIface interface{ isReg() }
type regImpl struct{ log *ranLog }

func (*regImpl) isReg() {}

type otherIface interface{ neverImplemented() }

func unaryFor(svc, m string) grpc.MethodDesc {
	return grpc.MethodDesc{MethodName: m, Handler: func(srv interface{}, ctx context.Context, dec func(interface{}) error, _ grpc.UnaryServerInterceptor) (interface{}, error) {
		in := new(gt.Message)
		if err := dec(in); err != nil {
			return nil, err
		}
		srv.(*regImpl).log.add(svc, m)
		return in, nil
	}}
}

func streamFor(svc, m string, cs, ss bool) grpc.StreamDesc {
	return grpc.StreamDesc{StreamName: m, ClientStreams: cs, ServerStreams: ss, Handler: func(srv interface{}, st grpc.ServerStream) error {
		srv.(*regImpl).log.add(svc, m)
		return nil
	}}
}

func svcName(tok string) string { return "pkg." + tok }

func descSvcA() *grpc.ServiceDesc {
	return &grpc.ServiceDesc{ServiceName: svcName("svcA"), HandlerType: (*regIface)(nil),
		Methods: []grpc.MethodDesc{unaryFor("svcA", "M1")},
		Streams: []grpc.StreamDesc{streamFor("svcA", "M2", true, true)}, Metadata: "a.proto"}
}

func descSvcB() *grpc.ServiceDesc {
	return &grpc.ServiceDesc{ServiceName: svcName("svcB"), HandlerType: (*regIface)(nil),
		Methods: []grpc.MethodDesc{unaryFor("svcB", "M2")}, Metadata: "b.proto"}
}

func joinName(slash bool, segs []interface{}) string {
	var parts []string
	for _, s := range segs {
		parts = append(parts, func(t string) string {
			switch t {
			case "svcA", "svcB", "svcAx", "svc":
				return svcName(t)
			}
			return t
		}(s.(string)))
	}
	n := strings.Join(parts, "/")
	if slash {
		n = "/" + n
	}
	return n
}

func errInfo(err error, out map[string]interface{}) {
	out["code"], out["raw"] = 0, false
	if err != nil {
		s, ok := status.FromError(err)
		if !ok {
			s = status.Convert(err)
		}
		out["code"] = int(s.Code())
		out["raw"] = !ok
		out["text"] = trunc(err.Error(), 80)
		if s.Code() == 0 {
			out["code"] = -9
		}
	}
}

func registryCase(c map[string]interface{}) (out map[string]interface{}) {
	out = map[string]interface{}{}
	for k, v := range c {
		out[k] = v
	}
	out["panicked"] = false
	defer func() {
		if r := recover(); r != nil {
			out["panicked"] = true
			out["text"] = trunc(fmt.Sprint(r), 100)
			if _, ok := out["ran"]; !ok {
				out["ran"] = [][]string{}
				out["code"], out["raw"] = -1, false
			}
		}
	}()
	switch c["fam"] {
	case "name":
		nameCase(c, out)
	case "base":
		baseCase(c, out)
	case "hist":
		histCase(c, out)
	}
	return out
}

func callIt(ch grpc.ClientConnInterface, name, kind string, out map[string]interface{}) {
	var err error
	if kind == "unary" {
		err = ch.Invoke(context.Background(), name, &gt.Message{}, &gt.Message{})
	} else {
		var st grpc.ClientStream
		st, err = ch.NewStream(context.Background(), &grpc.StreamDesc{ClientStreams: true, ServerStreams: true}, name)
		if err == nil {
			st.CloseSend()
			err = st.RecvMsg(&gt.Message{})
			if err != nil && err.Error() == "EOF" {
				err = nil
			}
			// the library cancels a stream from a finalizer once it is
			// unreachable: keep it reachable until the call is over
			runtime.KeepAlive(st)
		}
	}
	errInfo(err, out)
}

func nameCase(c, out map[string]interface{}) {
	log := &ranLog{}
	impl := &regImpl{log: log}
	reg := map[string]bool{}
	for _, r := range c["reg"].([]interface{}) {
		reg[r.(string)] = true
	}
	name := joinName(c["slash"].(bool), c["segs"].([]interface{}))
	out["name"] = name
	out["ran"] = [][]string{}
	var ch grpc.ClientConnInterface
	if c["tr"] == "inproc" {
		ic := &inprocgrpc.Channel{}
		if reg["svcA"] {
			ic.RegisterService(descSvcA(), impl)
		}
		if reg["svcB"] {
			ic.RegisterService(descSvcB(), impl)
		}
		ch = ic
	} else {
		s := httpgrpc.NewServer()
		if reg["svcA"] {
			s.RegisterService(descSvcA(), impl)
		}
		if reg["svcB"] {
			s.RegisterService(descSvcB(), impl)
		}
		u, _ := url.Parse("http://mem.invalid/")
		ch = &httpgrpc.Channel{Transport: &memTransport{h: s}, BaseURL: u}
	}
	callIt(ch, name, c["kind"].(string), out)
	log.mu.Lock()
	ran := log.ran
	log.mu.Unlock()
	if ran == nil {
		ran = [][]string{}
	}
	out["ran"] = ran
}

func baseCase(c, out map[string]interface{}) {
	log := &ranLog{}
	impl := &regImpl{log: log}
	base := c["base"].(string)
	if base == "/u-umlaut/" {
		base = "/ü/"
	}
	var h http.Handler
	if c["carrier"] == "server" {
		s := httpgrpc.NewServer(httpgrpc.WithBasePath(base))
		s.RegisterService(descSvcA(), impl)
		s.RegisterService(descSvcB(), impl)
		h = s
	} else {
		regm := grpchan.HandlerMap{}
		regm.RegisterService(descSvcA(), impl)
		regm.RegisterService(descSvcB(), impl)
		mux := http.NewServeMux()
		httpgrpc.HandleServices(mux.HandleFunc, base, regm, nil, nil)
		h = mux
	}
	srv := httptest.NewServer(h)
	defer srv.Close()
	u, _ := url.Parse(srv.URL)
	u.Path = base
	ch := &httpgrpc.Channel{Transport: http.DefaultTransport, BaseURL: u}
	out["ran"] = [][]string{}
	callIt(ch, "/"+svcName(c["svc"].(string))+"/"+c["m"].(string), c["kind"].(string), out)
	log.mu.Lock()
	ran := log.ran
	log.mu.Unlock()
	if ran == nil {
		ran = [][]string{}
	}
	out["ran"] = ran
}

// ---- histories (C15)

func histDesc(id string) *grpc.ServiceDesc {
	switch id {
	case "D1":
		return &grpc.ServiceDesc{ServiceName: "pkg.svcA", HandlerType: (*regIface)(nil),
			Methods: []grpc.MethodDesc{unaryFor("svcA", "M1")},
			Streams: []grpc.StreamDesc{streamFor("svcA", "M2", true, false)}, Metadata: "d1.proto"}
	case "D2":
		return &grpc.ServiceDesc{ServiceName: "pkg.svcB", HandlerType: (*regIface)(nil),
			Methods: []grpc.MethodDesc{unaryFor("svcB", "M2")}, Metadata: []string{"d2"}}
	case "D3":
		return &grpc.ServiceDesc{ServiceName: "pkg.svcA", HandlerType: (*regIface)(nil),
			Methods: []grpc.MethodDesc{unaryFor("svcA", "X1"), unaryFor("svcA", "X2")},
			Streams: []grpc.StreamDesc{streamFor("svcA", "X3", true, true)}, Metadata: "d3.proto"}
	default:
		return &grpc.ServiceDesc{ServiceName: "pkg.svcC", HandlerType: (*regIface)(nil), Metadata: nil}
	}
}

// which descriptor id does a ServiceInfo / ServiceDesc describe?
func descIDOfInfo(name string, info grpc.ServiceInfo) string {
	for _, id := range []string{"D1", "D2", "D3", "D4"} {
		d := histDesc(id)
		if d.ServiceName != name {
			continue
		}
		var want []grpc.MethodInfo
		for _, m := range d.Methods {
			want = append(want, grpc.MethodInfo{Name: m.MethodName})
		}
		for _, s := range d.Streams {
			want = append(want, grpc.MethodInfo{Name: s.StreamName, IsClientStream: s.ClientStreams, IsServerStream: s.ServerStreams})
		}
		got := append([]grpc.MethodInfo{}, info.Methods...)
		sort.Slice(got, func(i, j int) bool { return got[i].Name < got[j].Name })
		sort.Slice(want, func(i, j int) bool { return want[i].Name < want[j].Name })
		if len(got) == 0 && len(want) == 0 || reflect.DeepEqual(got, want) {
			if reflect.DeepEqual(info.Metadata, d.Metadata) {
				return id
			}
		}
	}
	return "?"
}

type registrar interface {
	RegisterService(*grpc.ServiceDesc, interface{})
}

func histCase(c, out map[string]interface{}) {
	log := &ranLog{}
	impl := &regImpl{log: log}
	var hm grpchan.HandlerMap
	var target registrar
	var info func() map[string]grpc.ServiceInfo
	switch c["carrier"] {
	case "handlermap":
		hm = grpchan.HandlerMap{}
		target, info = hm, hm.GetServiceInfo
	case "inproc":
		ch := &inprocgrpc.Channel{}
		target, info = ch, ch.GetServiceInfo
	default:
		s := httpgrpc.NewServer()
		target, info = s, s.GetServiceInfo
	}
	ref := grpc.NewServer()
	refNames := map[string]bool{}
	descOf := map[*grpc.ServiceDesc]string{}
	var obs []map[string]interface{}
	for _, oi := range c["ops"].([]interface{}) {
		o := oi.(map[string]interface{})
		b := map[string]interface{}{"panic": false, "val": [][]string{}, "count": 0, "grpc": true, "na": false}
		switch o["op"] {
		case "reg":
			d := histDesc(o["d"].(string))
			var h interface{} = impl
			if !o["typed"].(bool) {
				d.HandlerType = (*otherIface)(nil)
			}
			func() {
				defer func() {
					if r := recover(); r != nil {
						b["panic"] = true
					}
				}()
				target.RegisterService(d, h)
				descOf[d] = o["d"].(string)
				if o["typed"].(bool) && !refNames[d.ServiceName] {
					// the standard server, for parity of GetServiceInfo (it
					// exits the process on a duplicate, so only the
					// registrations that succeed above are mirrored)
					refNames[d.ServiceName] = true
					ref.RegisterService(histDesc(o["d"].(string)), impl)
				}
			}()
		case "query":
			if hm == nil {
				b["na"] = true
				break
			}
			d, h := hm.QueryService("pkg." + o["name"].(string))
			if d != nil {
				id := descOf[d]
				if id == "" || h != interface{}(impl) {
					id = "?"
				}
				b["val"] = [][]string{{strings.TrimPrefix(d.ServiceName, "pkg."), id}}
				b["count"] = 1
			}
		case "foreach":
			if hm == nil {
				b["na"] = true
				break
			}
			var v [][]string
			n := 0
			hm.ForEach(func(d *grpc.ServiceDesc, h interface{}) {
				n++
				id := descOf[d]
				if id == "" || h != interface{}(impl) {
					id = "?"
				}
				v = append(v, []string{strings.TrimPrefix(d.ServiceName, "pkg."), id})
			})
			if v == nil {
				v = [][]string{}
			}
			b["val"], b["count"] = v, n
		case "info":
			inf := info()
			var v [][]string
			for name, si := range inf {
				v = append(v, []string{strings.TrimPrefix(name, "pkg."), descIDOfInfo(name, si)})
			}
			if v == nil {
				v = [][]string{}
			}
			b["val"], b["count"] = v, len(inf)
			// parity with the standard server for the same registrations
			want := ref.GetServiceInfo()
			same := len(want) == len(inf)
			for name, w := range want {
				g, ok := inf[name]
				if !ok {
					same = false
					continue
				}
				gm := append([]grpc.MethodInfo{}, g.Methods...)
				wm := append([]grpc.MethodInfo{}, w.Methods...)
				sort.Slice(gm, func(i, j int) bool { return gm[i].Name < gm[j].Name })
				sort.Slice(wm, func(i, j int) bool { return wm[i].Name < wm[j].Name })
				if !(len(gm) == 0 && len(wm) == 0) && !reflect.DeepEqual(gm, wm) {
					same = false
				}
				if !reflect.DeepEqual(g.Metadata, w.Metadata) {
					same = false
				}
			}
			b["grpc"] = same
		}
		obs = append(obs, b)
	}
	if obs == nil {
		obs = []map[string]interface{}{}
	}
	out["obs"] = obs
}
