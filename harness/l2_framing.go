package main

import (
	"bytes"
	"context"
	"encoding/binary"
	"fmt"
	"io"
	"math/rand"
	"net/http"
	"net/http/httptest"
	"net/url"
	"runtime"

	"github.com/golang/protobuf/proto"
	"google.golang.org/grpc"

	gt "github.com/fullstorydev/grpchan/grpchantesting"
	"github.com/fullstorydev/grpchan/httpgrpc"
)

// C07: the stream decoders on hostile and truncated bodies.

func init() { caseKinds["framing"] = framingCase }

const allocLimit = 100*1024*1024 + 8*1024*1024

func frMsg(k int, cls string) *gt.Message {
	if cls == "z" {
		return &gt.Message{}
	}
	return &gt.Message{Payload: []byte{'m', byte('0' + k), '!'}}
}

func sizeOf(cls string, trailerLen int) int32 {
	switch cls {
	case "z":
		return 0
	case "s":
		return 5
	case "lim":
		return 100 * 1024 * 1024
	case "over":
		return 100*1024*1024 + 16*1024*1024
	case "max":
		return 2147483647
	case "tr":
		return int32(-trailerLen)
	case "trover":
		return -(100*1024*1024 + 16*1024*1024)
	case "min":
		return -2147483648
	}
	return 0
}

// materialise turns an abstract tape into bytes and the list of messages it
// encodes completely.
func materialise(segs []interface{}) ([]byte, []*gt.Message) {
	var buf bytes.Buffer
	var msgs []*gt.Message
	tr, _ := proto.Marshal(&httpgrpc.HttpTrailer{Code: 0, Message: "OK"})
	k := 0
	for _, si := range segs {
		s := si.(map[string]interface{})
		pre := int(s["pre"].(float64))
		cls := s["size"].(string)
		have := s["have"].(string)
		valid := s["valid"].(bool)
		var p [4]byte
		binary.BigEndian.PutUint32(p[:], uint32(sizeOf(cls, len(tr))))
		buf.Write(p[:pre])
		if pre < 4 {
			break
		}
		switch cls {
		case "z", "s":
			k++
			m := frMsg(k, cls)
			b, _ := proto.Marshal(m)
			switch have {
			case "full":
				buf.Write(b)
				msgs = append(msgs, m)
			case "short":
				if len(b) > 0 {
					buf.Write(b[:len(b)-1])
				}
			}
		case "tr":
			b := tr
			if !valid {
				b = bytes.Repeat([]byte{0xff}, len(tr))
			}
			switch have {
			case "full":
				buf.Write(b)
			case "short":
				buf.Write(b[:len(b)-1])
			}
		default:
			if have == "short" {
				buf.Write([]byte{1, 2, 3, 4, 5, 6, 7})
			}
		}
	}
	return buf.Bytes(), msgs
}

type tapeReader struct {
	r      *bytes.Reader
	abrupt bool
}

func (t *tapeReader) Read(p []byte) (int, error) {
	n, err := t.r.Read(p)
	if err == io.EOF && t.abrupt {
		return n, io.ErrUnexpectedEOF
	}
	return n, err
}
func (t *tapeReader) Close() error { return nil }

type tapeRT struct {
	body   []byte
	abrupt bool
}

func (t *tapeRT) RoundTrip(req *http.Request) (*http.Response, error) {
	go func() {
		if req.Body != nil {
			io.Copy(io.Discard, req.Body)
			req.Body.Close()
		}
	}()
	h := http.Header{}
	h.Set("Content-Type", httpgrpc.StreamRpcContentType_V1)
	return &http.Response{StatusCode: 200, Status: "200 OK", Proto: "HTTP/1.1", ProtoMajor: 1, ProtoMinor: 1,
		Header: h, Body: &tapeReader{r: bytes.NewReader(t.body), abrupt: t.abrupt}, ContentLength: -1, Request: req}, nil
}

func totalAlloc() uint64 {
	var ms runtime.MemStats
	runtime.ReadMemStats(&ms)
	return ms.TotalAlloc
}

// clientDecode feeds a reply body to the real client stream.
func clientDecode(body []byte, abrupt bool, want []*gt.Message) (n int, intact bool, result string, allocok bool) {
	u, _ := url.Parse("http://x.invalid/")
	ch := &httpgrpc.Channel{Transport: &tapeRT{body: body, abrupt: abrupt}, BaseURL: u}
	desc, name := streamDescFor("bidi")
	ctx, cancel := context.WithCancel(context.Background())
	defer cancel()
	before := totalAlloc()
	st, err := ch.NewStream(ctx, desc, name)
	if err != nil {
		return 0, true, "error", true
	}
	st.CloseSend()
	intact = true
	result = "error"
	for i := 0; i < 16; i++ {
		m := new(gt.Message)
		err := st.RecvMsg(m)
		if err == io.EOF {
			result = "ok"
			break
		}
		if err != nil {
			break
		}
		if n >= len(want) || !proto.Equal(want[n], m) {
			intact = false
		}
		n++
	}
	allocok = totalAlloc()-before < allocLimit
	runtime.KeepAlive(st)
	return
}

// serverDecode feeds a request body to the real server stream.
func serverDecode(body []byte, abrupt bool, want []*gt.Message, single bool) (n int, intact bool, result string, allocok bool) {
	intact = true
	result = "error"
	handler := func(srv interface{}, ss grpc.ServerStream) error {
		for i := 0; i < 16; i++ {
			m := new(gt.Message)
			err := ss.RecvMsg(m)
			if err == io.EOF {
				result = "ok"
				return nil
			}
			if err != nil {
				return err
			}
			if n >= len(want) || !proto.Equal(want[n], m) {
				intact = false
			}
			n++
		}
		return nil
	}
	desc := &grpc.StreamDesc{StreamName: "X", Handler: handler, ClientStreams: !single, ServerStreams: true}
	h := httpgrpc.HandleStream(theImpl, "verif.Svc", desc, nil)
	req := httptest.NewRequest("POST", "/verif.Svc/X", &tapeReader{r: bytes.NewReader(body), abrupt: abrupt})
	req.Header.Set("Content-Type", httpgrpc.StreamRpcContentType_V1)
	rec := httptest.NewRecorder()
	before := totalAlloc()
	h(rec, req)
	allocok = totalAlloc()-before < allocLimit
	return
}

func framingCase(c map[string]interface{}) (out map[string]interface{}) {
	out = map[string]interface{}{}
	for k, v := range c {
		out[k] = v
	}
	out["panicked"] = false
	out["n"], out["intact"], out["result"], out["allocok"] = 0, true, "error", true
	if c["fam"] == "bytesgen" {
		return bytesCases(c)
	}
	if c["fam"] == "cutgen" {
		if c["unary"] == true {
			return cutUnaryCases(c)
		}
		return cutCases(c)
	}
	defer func() {
		if r := recover(); r != nil {
			out["panicked"] = true
			out["text"] = trunc(fmt.Sprint(r), 100)
		}
	}()
	body, msgs := materialise(c["segs"].([]interface{}))
	abrupt := c["ending"] == "abrupt"
	var n int
	var intact, allocok bool
	var result string
	switch c["side"] {
	case "client":
		n, intact, result, allocok = clientDecode(body, abrupt, msgs)
	case "server-bidi":
		n, intact, result, allocok = serverDecode(body, abrupt, msgs, false)
	default:
		n, intact, result, allocok = serverDecode(body, abrupt, msgs, true)
	}
	out["n"], out["intact"], out["result"], out["allocok"] = n, intact, result, allocok
	return out
}

// ---- random byte strings

// abstractTape maps a byte string to the abstract tape of Framing: it reads
// size prefixes and counts bytes, nothing else (whether a complete payload
// decodes is asked of the protobuf library, not of grpchan).
func abstractTape(body []byte) (segs []map[string]interface{}, msgs []*gt.Message) {
	const limit = 100 * 1024 * 1024
	for len(body) > 0 {
		if len(body) < 4 {
			segs = append(segs, map[string]interface{}{"pre": len(body), "size": "z", "have": "none", "valid": true})
			return
		}
		sz := int64(int32(binary.BigEndian.Uint32(body[:4])))
		body = body[4:]
		cls, need := "s", sz
		switch {
		case sz == 0:
			cls = "z"
		case sz > limit:
			cls, need = "over", -1
		case sz == limit:
			cls = "lim"
		case sz == -2147483648:
			cls, need = "min", -1
		case sz < -limit:
			cls, need = "trover", -1
		case sz < 0:
			cls, need = "tr", -sz
		}
		if need < 0 {
			// the decoder must stop here
			segs = append(segs, map[string]interface{}{"pre": 4, "size": cls, "have": "none", "valid": true})
			return
		}
		if int64(len(body)) < need {
			have := "short"
			if len(body) == 0 {
				have = "none"
			}
			segs = append(segs, map[string]interface{}{"pre": 4, "size": cls, "have": have, "valid": true})
			return
		}
		payload := body[:need]
		body = body[need:]
		valid := true
		if cls == "tr" {
			// (a trailer that decodes but carries a non-OK code ends the call
			// with that status: for the tape's purposes an error, like an
			// undecodable one)
			t := new(httpgrpc.HttpTrailer)
			valid = proto.Unmarshal(payload, t) == nil && t.Code == 0
		} else {
			m := new(gt.Message)
			valid = proto.Unmarshal(payload, m) == nil
			if valid {
				msgs = append(msgs, m)
			}
		}
		segs = append(segs, map[string]interface{}{"pre": 4, "size": cls, "have": "full", "valid": valid})
		if !valid || cls == "tr" {
			// (what follows an undecodable payload or a trailer is never looked at;
			// keep the tape short)
			if cls == "tr" && len(body) > 0 {
				continue
			}
			if !valid {
				return
			}
		}
	}
	return
}

// bytesCases: n seeded random bodies, each given to the three decoders.
func bytesCases(c map[string]interface{}) map[string]interface{} {
	n := int(c["n"].(float64))
	r := rand.New(rand.NewSource(int64(c["seed"].(float64))))
	tr, _ := proto.Marshal(&httpgrpc.HttpTrailer{Code: 0, Message: "OK"})
	trErr, _ := proto.Marshal(&httpgrpc.HttpTrailer{Code: 5, Message: "nf"})
	pre := func(buf *bytes.Buffer, v int32) {
		var p [4]byte
		binary.BigEndian.PutUint32(p[:], uint32(v))
		buf.Write(p[:])
	}
	var multi []map[string]interface{}
	for i := 0; i < n; i++ {
		var buf bytes.Buffer
		for k, parts := 0, r.Intn(5); k < parts; k++ {
			switch r.Intn(9) {
			case 0, 1, 2: // a well-formed message
				m := &gt.Message{Payload: randBytes(r, r.Intn(40)), Count: int32(r.Intn(5))}
				if r.Intn(4) == 0 {
					m = &gt.Message{}
				}
				b, _ := proto.Marshal(m)
				pre(&buf, int32(len(b)))
				buf.Write(b)
			case 3: // a frame with a random payload
				l := r.Intn(24)
				pre(&buf, int32(l))
				buf.Write(randBytes(r, l))
			case 4: // a trailer
				b := tr
				if r.Intn(3) == 0 {
					b = trErr
				}
				pre(&buf, int32(-len(b)))
				buf.Write(b)
			case 5: // a trailer with a random payload
				l := 1 + r.Intn(16)
				pre(&buf, int32(-l))
				buf.Write(randBytes(r, l))
			case 6: // a hostile size
				pre(&buf, []int32{100 * 1024 * 1024, 100*1024*1024 + 1, 2147483647, -2147483648, -(100*1024*1024 + 1),
					int32(r.Uint32()), int32(1 + r.Intn(70000)), -int32(1 + r.Intn(70000))}[r.Intn(8)])
				buf.Write(randBytes(r, r.Intn(12)))
			default: // garbage
				buf.Write(randBytes(r, 1+r.Intn(11)))
			}
		}
		body := buf.Bytes()
		if len(body) > 0 && r.Intn(2) == 0 {
			body = body[:r.Intn(len(body)+1)]
		}
		segs, msgs := abstractTape(body)
		if segs == nil {
			segs = []map[string]interface{}{}
		}
		for _, side := range []string{"client", "server-bidi", "server-ss"} {
			ending := []string{"clean", "abrupt"}[r.Intn(2)]
			o := map[string]interface{}{"fam": "tape", "segs": segs, "ending": ending, "side": side, "random": true,
				"panicked": false, "body": fmt.Sprintf("%x", trunc(string(body), 48))}
			func() {
				defer func() {
					if rec := recover(); rec != nil {
						o["panicked"] = true
					}
				}()
				var nn int
				var intact, allocok bool
				var result string
				switch side {
				case "client":
					nn, intact, result, allocok = clientDecode(body, ending == "abrupt", msgs)
				case "server-bidi":
					nn, intact, result, allocok = serverDecode(body, ending == "abrupt", msgs, false)
				default:
					nn, intact, result, allocok = serverDecode(body, ending == "abrupt", msgs, true)
				}
				o["n"], o["intact"], o["result"], o["allocok"] = nn, intact, result, allocok
			}()
			if _, ok := o["n"]; !ok {
				o["n"], o["intact"], o["result"], o["allocok"] = 0, true, "error", true
			}
			multi = append(multi, o)
		}
	}
	return map[string]interface{}{"_multi": multi}
}

// lenRT replays a reply with a Content-Length: a body that ends before the
// declared length is reported by net/http as io.ErrUnexpectedEOF.
type lenRT struct {
	status int
	header http.Header
	body   []byte
	full   int
}

func (t *lenRT) RoundTrip(req *http.Request) (*http.Response, error) {
	if req.Body != nil {
		io.Copy(io.Discard, req.Body)
		req.Body.Close()
	}
	return &http.Response{StatusCode: t.status, Status: "200 OK", Proto: "HTTP/1.1", ProtoMajor: 1, ProtoMinor: 1,
		Header: t.header.Clone(), Body: &tapeReader{r: bytes.NewReader(t.body), abrupt: len(t.body) < t.full},
		ContentLength: int64(t.full), Request: req}, nil
}

// cutUnaryCases records the real reply of a successful unary call whose
// response populates several fields (so that many prefixes of the body are
// themselves valid encodings) and gives the real unary client the body cut at
// every byte offset, the way net/http presents a body shorter than its
// Content-Length.
func cutUnaryCases(c map[string]interface{}) map[string]interface{} {
	resp := &gt.Message{Payload: []byte("hello-world"), Count: 42, Code: 7, DelayMillis: 3,
		Headers: map[string][]byte{"k": []byte("v")}}
	if c["big"] == true {
		resp.Payload = bytes.Repeat([]byte{9}, 300)
	}
	md := grpc.MethodDesc{MethodName: "U", Handler: func(srv interface{}, ctx context.Context, dec func(interface{}) error, _ grpc.UnaryServerInterceptor) (interface{}, error) {
		if e := dec(new(gt.Message)); e != nil {
			return nil, e
		}
		return resp, nil
	}}
	h := httpgrpc.HandleMethod(theImpl, "verif.Svc", &md, nil)
	req := httptest.NewRequest("POST", "/verif.Svc/U", bytes.NewReader(nil))
	req.Header.Set("Content-Type", httpgrpc.UnaryRpcContentType_V1)
	rec := httptest.NewRecorder()
	h(rec, req)
	res := rec.Result()
	body := rec.Body.Bytes()
	u, _ := url.Parse("http://x.invalid/")
	var multi []map[string]interface{}
	for cut := 0; cut <= len(body); cut++ {
		o := map[string]interface{}{"fam": "cut", "total": 1, "cut": cut, "len": len(body), "abrupt": cut < len(body),
			"kind": "unary", "panicked": false, "allocok": true}
		func() {
			defer func() {
				if r := recover(); r != nil {
					o["panicked"] = true
				}
			}()
			ch := &httpgrpc.Channel{Transport: &lenRT{status: res.StatusCode, header: res.Header, body: body[:cut], full: len(body)}, BaseURL: u}
			got := new(gt.Message)
			err := ch.Invoke(context.Background(), "/verif.Svc/U", &gt.Message{}, got)
			if err == nil {
				o["n"], o["result"], o["intact"] = 1, "ok", proto.Equal(got, resp)
			} else {
				o["n"], o["result"], o["intact"] = 0, "error", true
			}
		}()
		if _, ok := o["n"]; !ok {
			o["n"], o["intact"], o["result"] = 0, true, "error"
		}
		multi = append(multi, o)
	}
	return map[string]interface{}{"_multi": multi}
}

// cutCases records a real reply of k messages (plus headers, trailers and a
// status) and decodes it cut at every byte offset, ending cleanly and
// abruptly.
func cutCases(c map[string]interface{}) map[string]interface{} {
	k := int(c["k"].(float64))
	var want []*gt.Message
	for i := 1; i <= k; i++ {
		cls := "s"
		if i%3 == 0 {
			cls = "z"
		}
		m := frMsg(i, cls)
		if c["big"] == true && i == 2 {
			m = &gt.Message{Payload: bytes.Repeat([]byte{byte(i)}, 300), Count: int32(i)}
		}
		want = append(want, m)
	}
	handler := func(srv interface{}, ss grpc.ServerStream) error {
		for _, m := range want {
			if err := ss.SendMsg(m); err != nil {
				return err
			}
		}
		return nil
	}
	desc := &grpc.StreamDesc{StreamName: "X", Handler: handler, ClientStreams: true, ServerStreams: true}
	h := httpgrpc.HandleStream(theImpl, "verif.Svc", desc, nil)
	req := httptest.NewRequest("POST", "/verif.Svc/X", bytes.NewReader(nil))
	req.Header.Set("Content-Type", httpgrpc.StreamRpcContentType_V1)
	rec := httptest.NewRecorder()
	h(rec, req)
	body := rec.Body.Bytes()
	var multi []map[string]interface{}
	for cut := 0; cut <= len(body); cut++ {
		for _, abrupt := range []bool{false, true} {
			o := map[string]interface{}{"fam": "cut", "total": k, "cut": cut, "len": len(body), "abrupt": abrupt, "panicked": false}
			func() {
				defer func() {
					if r := recover(); r != nil {
						o["panicked"] = true
					}
				}()
				n, intact, result, allocok := clientDecode(body[:cut], abrupt, want)
				o["n"], o["intact"], o["result"], o["allocok"] = n, intact, result, allocok
			}()
			if _, ok := o["n"]; !ok {
				o["n"], o["intact"], o["result"], o["allocok"] = 0, true, "error", true
			}
			multi = append(multi, o)
		}
	}
	return map[string]interface{}{"_multi": multi}
}
