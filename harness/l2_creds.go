package main

import (
	"context"
	"fmt"
	"google.golang.org/grpc/codes"
	"google.golang.org/grpc/status"
	"net/http"
	"net/http/httptest"
	"net/url"
	"runtime"
	"sort"
	"sync"
	"sync/atomic"

	"google.golang.org/grpc"
	"google.golang.org/grpc/credentials"
	"google.golang.org/grpc/metadata"
	"google.golang.org/grpc/peer"

	gt "github.com/fullstorydev/grpchan/grpchantesting"
	"github.com/fullstorydev/grpchan/httpgrpc"
	"github.com/fullstorydev/grpchan/inprocgrpc"
)

// C13: per-RPC credentials and peer information.

func init() { caseKinds["creds"] = credsCase }

type testCreds struct {
	require bool
	mode    string
}

func (t testCreds) GetRequestMetadata(ctx context.Context, uri ...string) (map[string]string, error) {
	switch t.mode {
	case "error":
		return nil, fmt.Errorf("credential failure")
	case "empty":
		return map[string]string{}, nil
	}
	return map[string]string{"k-cred": "r1", "k-both": "r2"}, nil
}
func (t testCreds) RequireTransportSecurity() bool { return t.require }

type credsObs struct {
	mu   sync.Mutex
	ran  bool
	md   metadata.MD
	peer *peer.Peer
}

func (o *credsObs) see(ctx context.Context) {
	o.mu.Lock()
	defer o.mu.Unlock()
	o.ran = true
	o.md, _ = metadata.FromIncomingContext(ctx)
	o.peer, _ = peer.FromContext(ctx)
}

func credsDesc(o *credsObs) *grpc.ServiceDesc {
	return &grpc.ServiceDesc{ServiceName: "verif.Svc", HandlerType: (*vsvc)(nil),
		Methods: []grpc.MethodDesc{{MethodName: "U", Handler: func(srv interface{}, ctx context.Context, dec func(interface{}) error, _ grpc.UnaryServerInterceptor) (interface{}, error) {
			o.see(ctx)
			m := new(gt.Message)
			if err := dec(m); err != nil {
				return nil, err
			}
			return m, nil
		}}, {MethodName: "UF", Handler: func(srv interface{}, ctx context.Context, dec func(interface{}) error, _ grpc.UnaryServerInterceptor) (interface{}, error) {
			o.see(ctx)
			return nil, status.Error(codes.NotFound, "handler says no")
		}}},
		Streams: []grpc.StreamDesc{{StreamName: "BD", ClientStreams: true, ServerStreams: true, Handler: func(srv interface{}, ss grpc.ServerStream) error {
			o.see(ss.Context())
			return nil
		}}, {StreamName: "BDF", ClientStreams: true, ServerStreams: true, Handler: func(srv interface{}, ss grpc.ServerStream) error {
			o.see(ss.Context())
			return status.Error(codes.NotFound, "handler says no")
		}}},
	}
}

type countRT struct {
	rt http.RoundTripper
	n  int32
}

func (c *countRT) RoundTrip(r *http.Request) (*http.Response, error) {
	atomic.AddInt32(&c.n, 1)
	return c.rt.RoundTrip(r)
}

var credsSrv struct {
	once          sync.Once
	plain, secure *httptest.Server
	obs           *credsObs
}

func credsCase(c map[string]interface{}) (out map[string]interface{}) {
	out = map[string]interface{}{}
	for k, v := range c {
		out[k] = v
	}
	out["panicked"] = false
	out["err"], out["requests"], out["ran"], out["herr"] = false, -1, false, false
	out["hmd"] = [][]interface{}{}
	out["cpeer"], out["ctls"], out["hpeer"], out["htls"] = false, false, false, false
	defer func() {
		if r := recover(); r != nil {
			out["panicked"] = true
			out["text"] = trunc(fmt.Sprint(r), 100)
		}
	}()
	credsSrv.once.Do(func() {
		credsSrv.obs = &credsObs{}
		s := httpgrpc.NewServer()
		s.RegisterService(credsDesc(credsSrv.obs), theImpl)
		credsSrv.plain = httptest.NewServer(s)
		credsSrv.secure = httptest.NewTLSServer(s)
	})
	obs := credsSrv.obs
	var ch grpc.ClientConnInterface
	var crt *countRT
	if c["tr"] == "inproc" {
		obs = &credsObs{}
		ic := &inprocgrpc.Channel{}
		ic.RegisterService(credsDesc(obs), theImpl)
		ch = ic
	} else {
		srv := credsSrv.plain
		if c["scheme"] == "https" {
			srv = credsSrv.secure
		}
		u, _ := url.Parse(srv.URL)
		crt = &countRT{rt: srv.Client().Transport}
		ch = &httpgrpc.Channel{Transport: crt, BaseURL: u}
	}
	obs.mu.Lock()
	obs.ran, obs.md, obs.peer = false, nil, nil
	obs.mu.Unlock()
	ctx := context.Background()
	switch c["callermd"] {
	case "disjoint":
		ctx = metadata.NewOutgoingContext(ctx, metadata.Pairs("k-caller", "c1"))
	case "overlap":
		ctx = metadata.NewOutgoingContext(ctx, metadata.Pairs("k-caller", "c1", "k-both", "c2"))
	}
	var opts []grpc.CallOption
	if c["creds"] != "none" {
		opts = append(opts, grpc.PerRPCCredentials(testCreds{require: c["require"].(bool), mode: c["creds"].(string)}))
	}
	np := int(c["peeropt"].(float64))
	peers := make([]peer.Peer, np)
	for i := range peers {
		opts = append(opts, grpc.Peer(&peers[i]))
	}
	var err error
	sfx := ""
	if c["outcome"] == "fail" {
		sfx = "F"
	}
	if c["kind"] == "unary" {
		err = ch.Invoke(ctx, "/verif.Svc/U"+sfx, &gt.Message{}, &gt.Message{}, opts...)
	} else {
		var st grpc.ClientStream
		st, err = ch.NewStream(ctx, &grpc.StreamDesc{StreamName: "BD" + sfx, ClientStreams: true, ServerStreams: true}, "/verif.Svc/BD"+sfx, opts...)
		if err == nil {
			st.CloseSend()
			err = st.RecvMsg(&gt.Message{})
			if err != nil && err.Error() == "EOF" {
				err = nil
			}
			runtime.KeepAlive(st)
		}
	}
	out["err"] = err != nil
	st, _ := status.FromError(err)
	out["herr"] = err != nil && st.Code() == codes.NotFound && st.Message() == "handler says no"
	if err != nil {
		out["text"] = trunc(err.Error(), 80)
	}
	if crt != nil {
		out["requests"] = int(atomic.LoadInt32(&crt.n))
	}
	obs.mu.Lock()
	defer obs.mu.Unlock()
	out["ran"] = obs.ran
	var hmd [][]interface{}
	var keys []string
	for k := range obs.md {
		if len(k) > 2 && k[:2] == "k-" {
			keys = append(keys, k)
		}
	}
	sort.Strings(keys)
	for _, k := range keys {
		hmd = append(hmd, []interface{}{k, obs.md[k]})
	}
	if hmd == nil {
		hmd = [][]interface{}{}
	}
	out["hmd"] = hmd
	if obs.peer != nil {
		out["hpeer"] = obs.peer.Addr != nil && obs.peer.Addr.String() != ""
		_, tls := obs.peer.AuthInfo.(credentials.TLSInfo)
		out["htls"] = tls
	}
	cpeer, ctls := np > 0, np > 0
	for i := range peers {
		if peers[i].Addr == nil || peers[i].Addr.String() == "" {
			cpeer = false
		}
		if _, ok := peers[i].AuthInfo.(credentials.TLSInfo); !ok {
			ctls = false
		}
	}
	out["cpeer"], out["ctls"] = cpeer, ctls
	return out
}
