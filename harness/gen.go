package main

import (
	"bufio"
	"encoding/json"
	"flag"
	"fmt"
	"math/rand"
	"os"
	"strings"
)

var kinds = []string{"unary", "cstream", "sstream", "bidi"}

// cmdGen writes scripts (NDJSON) to stdout.
func cmdGen(args []string) {
	fs := flag.NewFlagSet("gen", flag.ExitOnError)
	what := fs.String("what", "coop", "coop | race")
	n := fs.Int("n", 100, "number of scripts per transport")
	seed := fs.Int64("seed", 1, "seed")
	trs := fs.String("tr", "inproc", "comma separated transports")
	fs.Parse(args)
	r := rand.New(rand.NewSource(*seed))
	w := bufio.NewWriter(os.Stdout)
	defer w.Flush()
	enc := json.NewEncoder(w)
	for _, tr := range strings.Split(*trs, ",") {
		for i := 0; i < *n; i++ {
			kind := kinds[i%4]
			id := fmt.Sprintf("%s-%s-%d-%d", *what, tr, *seed, i)
			var s *Script
			switch *what {
			case "coop":
				s = cooperativeScript(r, kind, tr, id)
				if i%7 == 3 {
					s.Calls = 2 + r.Intn(5)
					s.ReqMD = true
				}
			case "race":
				s = cooperativeScript(r, kind, tr, id)
				s.CancelN = 2 + r.Intn(14)
				s.CancelW = []string{"cancel", "deadline"}[r.Intn(2)]
			case "sizes":
				s = sizesScript(r, kind, tr, id, i)
			case "card":
				s = cardinalityScript(r, tr, id, i)
			case "chain":
				s = chainScript(r, tr, id, i)
			case "overrun":
				// (loopback TCP only: what a net/http server does with a request
				// it gives up reading is taken from the real one)
				if tr != "http" {
					continue
				}
				s = overrunScript(r, tr, id, i)
			case "stall":
				if tr != "inproc" {
					continue
				}
				s = stallScript(r, id, i)
			case "early":
				s = earlyReturnScript(r, tr, id, i)
			case "gc":
				if tr == "http" || tr == "ref" {
					continue
				}
				s = gcScript(r, tr, id, i)
			}
			if tr == "http" || tr == "ref" {
				// over sockets a handler of an earlier, cancelled call may start
				// late: calls are told apart by a metadata key
				s.ReqMD = true
			}
			enc.Encode(s)
		}
	}
}

// chainScript: unary calls on one channel, one after the other, alternately
// failing and succeeding, each started the moment the one before has returned;
// over the in-memory HTTP transport the replies trickle in, so that whatever
// a call leaves running behind it overlaps the next call.
func chainScript(r *rand.Rand, tr, id string, i int) *Script {
	s := &Script{ID: id, Kind: "unary", Tr: tr, Mode: "free", Seed: r.Int63(), ReqMD: true}
	s.Calls = 4 + r.Intn(5)
	s.Chain = true
	s.Slow = tr == "httpmem"
	s.MsgCls = []string{"medium", "medium", "fields", "maps", "small"}[i%5]
	s.StCls = []string{statusClasses[r.Intn(len(statusClasses))]}
	s.CR = []Op{{Name: "Invoke"}}
	h := []Op{{Name: "Recv"}}
	if r.Intn(2) == 0 {
		h = append(h, Op{Name: "SetHeader"})
	}
	if r.Intn(2) == 0 {
		h = append(h, Op{Name: "SetTrailer"})
	}
	h = append(h, Op{Name: "Return", Arg: 1, Arg2: 0})
	s.H = number(h)
	s.NHdr = maxArg(s.H, "SetHeader")
	s.NTrl = maxArg(s.H, "SetTrailer")
	return s
}

// overrunScript: an HTTP stream whose handler returns early while the client
// keeps sending -- more than the 256 KiB of unread request body a net/http
// server is prepared to swallow before it answers and drops the connection --
// and never half-closes: the call ends with its final status while the request
// body is still open. Nothing may be left behind.
func overrunScript(r *rand.Rand, tr, id string, i int) *Script {
	s := &Script{ID: id, Kind: []string{"bidi", "cstream"}[i%2], Tr: tr, Mode: "free", Seed: r.Int63(), Calls: 1, ReqMD: true}
	// boundarySizes index 14*17.. : around 2^17 = 128 KiB
	s.MsgCls = "sized:238"
	st := 0
	if r.Intn(3) != 0 {
		st = 1
		s.StCls = []string{statusClasses[r.Intn(len(statusClasses))]}
	}
	var h []Op
	if r.Intn(2) == 0 {
		h = append(h, Op{Name: "Recv"})
	}
	if r.Intn(2) == 0 {
		h = append(h, Op{Name: "SetTrailer"})
	}
	if s.Kind == "cstream" && st == 0 {
		h = append(h, Op{Name: "Send"})
	}
	h = append(h, Op{Name: "Return", Arg: st})
	for k, n := 0, 4+r.Intn(3); k < n; k++ {
		s.CS = append(s.CS, Op{Name: "Send"})
	}
	s.CR = []Op{{Name: "RecvAll"}, {Name: "Recv"}}
	s.H = number(h)
	s.CS = number(s.CS)
	s.NTrl = maxArg(s.H, "SetTrailer")
	return s
}

// sizesScript: cooperative half-duplex calls whose messages sweep the encoded
// sizes around every power of two, 8 B .. 128 KiB, in both directions (C01:
// "all message contents ... large payloads"; the transports buffer, chunk and
// frame at such boundaries). Script i uses the boundary sizes 4i+1 .. 4i+4.
func sizesScript(r *rand.Rand, kind, tr, id string, i int) *Script {
	s := &Script{ID: id, Kind: kind, Tr: tr, Mode: "free", Seed: r.Int63(), Calls: 1, ReqMD: true}
	s.MsgCls = fmt.Sprintf("sized:%d", 4*(i/4))
	if kind == "unary" {
		s.CR = []Op{{Name: "Invoke"}}
		s.H = number([]Op{{Name: "Recv"}, {Name: "Return", Arg: 0, Arg2: 1}})
		return s
	}
	nreq, nresp := 1, 1
	if s.reqStream() {
		nreq = 4
	}
	if s.respStream() {
		nresp = 4
	}
	for k := 0; k < nreq; k++ {
		s.CS = append(s.CS, Op{Name: "Send"})
	}
	s.CS = append(s.CS, Op{Name: "CloseSend"})
	s.CR = []Op{{Name: "RecvAll"}}
	h := []Op{{Name: "RecvAll"}}
	for k := 0; k < nresp; k++ {
		h = append(h, Op{Name: "Send"})
	}
	h = append(h, Op{Name: "Return"})
	s.H = number(h)
	s.CS = number(s.CS)
	return s
}

// cardinalityScript: single-response methods whose handler produces 0..3
// responses with a nil or non-nil status (C08); server-streaming methods whose
// client sends two requests (C08, HTTP server side).
func cardinalityScript(r *rand.Rand, tr, id string, i int) *Script {
	s := &Script{ID: id, Tr: tr, Mode: "sched", Seed: r.Int63(), Calls: 1, ReqMD: true, MsgCls: "small"}
	if tr == "http" || tr == "ref" {
		s.Mode = "free"
	}
	variant := i % 9
	nresp := variant % 4
	st := 0
	if variant >= 4 && variant < 8 {
		st = 1
		s.StCls = []string{"plain"}
	}
	var h []Op
	if variant == 8 {
		// two requests on a single-request (server-streaming) method
		s.Kind = "sstream"
		s.CS = []Op{{Name: "Send"}, {Name: "Send"}, {Name: "CloseSend"}}
		s.CR = []Op{{Name: "RecvAll"}}
		h = []Op{{Name: "Recv"}, {Name: "Send"}, {Name: "Return"}}
		s.Sched = []string{"cs", "cs", "cs", "h", "h", "h", "cr"}
	} else if i%2 == 0 {
		s.Kind = "cstream"
		s.CS = []Op{{Name: "Send"}, {Name: "CloseSend"}}
		s.CR = []Op{{Name: "Recv"}, {Name: "Recv"}}
		if r.Intn(3) == 0 {
			// the client asks for the headers first (which peeks a frame)
			s.CR = append([]Op{{Name: "Header"}}, s.CR...)
		}
		h = []Op{{Name: "RecvAll"}}
		if r.Intn(2) == 0 {
			h = append(h, Op{Name: "SetHeader"})
		}
		for k := 0; k < nresp; k++ {
			h = append(h, Op{Name: "Send"})
		}
		if r.Intn(2) == 0 {
			h = append(h, Op{Name: "SetTrailer"})
		}
		h = append(h, Op{Name: "Return", Arg: st})
		s.Sched = []string{"cs", "cs"}
		// vary when the client starts receiving relative to the handler's sends
		pos := r.Intn(len(h) + 1)
		for k := 0; k <= len(h); k++ {
			if k == pos {
				s.Sched = append(s.Sched, "cr")
			}
			if k < len(h) {
				s.Sched = append(s.Sched, "h")
			}
		}
		s.Sched = append(s.Sched, "cr", "cr", "cr")
	} else {
		s.Kind = "unary"
		s.CR = []Op{{Name: "Invoke"}}
		h = []Op{{Name: "Recv"}}
		nr := 0
		if nresp >= 1 {
			nr = 1
		} else if r.Intn(2) == 0 {
			nr = 2 // no response, as a typed nil pointer
		}
		h = append(h, Op{Name: "Return", Arg: st, Arg2: nr})
		s.Sched = []string{"cr", "h", "h"}
	}
	s.H = number(h)
	s.CS = number(s.CS)
	s.NHdr = maxArg(s.H, "SetHeader")
	s.NTrl = maxArg(s.H, "SetTrailer")
	return s
}

// stallScript: a sender keeps sending while its peer does not receive (C20).
func stallScript(r *rand.Rand, id string, i int) *Script {
	s := &Script{ID: id, Tr: "inproc", Mode: "sched", Seed: r.Int63(), Calls: 1, ReqMD: i%2 == 0, MsgCls: "small"}
	n := 2 + r.Intn(39)
	s.Kind = []string{"bidi", "cstream", "sstream"}[i%3]
	dirReq := i%2 == 0 && s.Kind != "sstream"
	if s.Kind == "cstream" {
		dirReq = true
	}
	var h []Op
	if dirReq {
		// the other direction may hold an unread frame while the client sends:
		// the handler first sends its headers or (bidi) a message nobody reads
		switch r.Intn(3) {
		case 0:
			h = append(h, Op{Name: "SendHeader"})
			s.Sched = append(s.Sched, "h")
		case 1:
			if s.Kind == "bidi" {
				h = append(h, Op{Name: "Send"})
				s.Sched = append(s.Sched, "h")
			}
		}
		// client sends n, handler receives a few times at random points
		for k := 0; k < n; k++ {
			s.CS = append(s.CS, Op{Name: "Send"})
			s.Sched = append(s.Sched, "cs")
			if r.Intn(6) == 0 {
				h = append(h, Op{Name: "Recv"})
				s.Sched = append(s.Sched, "h")
			}
		}
		switch r.Intn(3) {
		case 0:
			// the peer finishes while the sender is blocked -- with or without
			// final frames (trailers, an error) that have to fit into the
			// response channel
			ret := Op{Name: "Return"}
			switch r.Intn(3) {
			case 0:
				h = append(h, Op{Name: "SetTrailer"})
				s.Sched = append(s.Sched, "h")
				s.NTrl = 1
			case 1:
				ret.Arg = 1
				s.StCls = []string{"plain"}
				if r.Intn(2) == 0 {
					h = append(h, Op{Name: "SetTrailer"})
					s.Sched = append(s.Sched, "h")
					s.NTrl = 1
				}
			}
			h = append(h, ret)
			s.Sched = append(s.Sched, "h")
		case 1:
			s.Sched = append(s.Sched, "cancel")
		}
		s.Sched = append(s.Sched, "cs", "cs")
	} else {
		if i%4 == 1 {
			h = append(h, Op{Name: "SetHeader"})
			s.Sched = append(s.Sched, "h")
		}
		if s.Kind == "sstream" {
			s.CS = []Op{{Name: "Send"}, {Name: "CloseSend"}}
			h = append(h, Op{Name: "Recv"})
			s.Sched = append(s.Sched, "cs", "cs", "h")
		}
		for k := 0; k < n; k++ {
			h = append(h, Op{Name: "Send"})
			s.Sched = append(s.Sched, "h")
			if r.Intn(6) == 0 {
				if r.Intn(3) == 0 {
					s.CR = append(s.CR, Op{Name: "Header"})
				} else {
					s.CR = append(s.CR, Op{Name: "Recv"})
				}
				s.Sched = append(s.Sched, "cr")
			}
		}
		if r.Intn(2) == 0 {
			s.Sched = append(s.Sched, "cancel")
		}
		s.Sched = append(s.Sched, "h", "h")
	}
	s.H = number(h)
	s.CS = number(s.CS)
	s.NHdr = maxArg(s.H, "SetHeader")
	if n := maxArg(s.H, "SendHeader"); n > s.NHdr {
		s.NHdr = n
	}
	return s
}

// earlyReturnScript: the handler finishes while the client is still sending,
// and the client keeps operating after completion (C05).
func earlyReturnScript(r *rand.Rand, tr, id string, i int) *Script {
	s := &Script{ID: id, Tr: tr, Mode: "sched", Seed: r.Int63(), Calls: 1, ReqMD: true, MsgCls: "small"}
	if tr == "http" || tr == "ref" {
		s.Mode = "free"
	}
	s.Kind = []string{"bidi", "cstream"}[i%2]
	st := 0
	if r.Intn(2) == 0 {
		st = 1
		s.StCls = []string{"plain"}
	}
	var h []Op
	for k, n := 0, r.Intn(2); k < n; k++ {
		h = append(h, Op{Name: "Recv"})
	}
	if r.Intn(2) == 0 {
		h = append(h, Op{Name: "SetTrailer"})
	}
	if s.Kind == "cstream" && st == 0 {
		h = append(h, Op{Name: "Send"})
	}
	h = append(h, Op{Name: "Return", Arg: st})
	nsend := 1 + r.Intn(5)
	for k := 0; k < nsend; k++ {
		s.CS = append(s.CS, Op{Name: "Send"})
	}
	s.CS = append(s.CS, Op{Name: "CloseSend"}, Op{Name: "CloseSend"})
	s.CR = []Op{{Name: "RecvAll"}, {Name: "Recv"}, {Name: "Header"}, {Name: "Trailer"}, {Name: "Recv"}}
	// handler first, then the client's sends, close, receives, and again
	for range h {
		s.Sched = append(s.Sched, "h")
	}
	for range s.CS {
		s.Sched = append(s.Sched, "cs")
	}
	for range s.CR {
		s.Sched = append(s.Sched, "cr")
	}
	// shuffle lightly: move some client sends before the handler's return
	if r.Intn(2) == 0 && len(s.Sched) > 3 {
		k := r.Intn(len(h))
		s.Sched = append(append(append([]string{}, s.Sched[:k]...), "cs"), s.Sched[k:]...)
	}
	s.H = number(h)
	s.CS = number(s.CS)
	s.NTrl = maxArg(s.H, "SetTrailer")
	return s
}

// gcScript: garbage collections while the caller's last operation on the
// stream is blocked. Both transports cancel a stream from a finalizer when it
// becomes unreachable; that must not happen under a call in progress.
func gcScript(r *rand.Rand, tr, id string, i int) *Script {
	s := &Script{ID: id, Tr: tr, Mode: "sched", Seed: r.Int63(), Calls: 1, ReqMD: true, MsgCls: "small"}
	s.Kind = []string{"sstream", "bidi", "cstream"}[i%3]
	st := 0
	if i%4 == 3 {
		st = 1
		s.StCls = []string{"plain"}
	}
	s.CS = []Op{{Name: "Send"}, {Name: "CloseSend"}}
	s.CR = []Op{{Name: "RecvLast"}}
	h := []Op{{Name: "Recv"}}
	if st == 0 {
		h = append(h, Op{Name: "Send"})
	}
	h = append(h, Op{Name: "Return", Arg: st})
	s.Sched = []string{"cs", "cs", "h", "cr", "gc", "gc"}
	for range h[1:] {
		s.Sched = append(s.Sched, "h")
	}
	s.H = number(h)
	s.CS = number(s.CS)
	return s
}
