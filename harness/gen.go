package main

import (
	"bufio"
	"encoding/json"
	"flag"
	"fmt"
	"math/rand"
	"os"
	"strings"
)

var kinds = []string{"unary", "cstream", "sstream", "bidi"}

// cmdGen writes scripts (NDJSON) to stdout.
func cmdGen(args []string) {
	fs := flag.NewFlagSet("gen", flag.ExitOnError)
	what := fs.String("what", "coop", "coop | race")
	n := fs.Int("n", 100, "number of scripts per transport")
	seed := fs.Int64("seed", 1, "seed")
	trs := fs.String("tr", "inproc", "comma separated transports")
	fs.Parse(args)
	r := rand.New(rand.NewSource(*seed))
	w := bufio.NewWriter(os.Stdout)
	defer w.Flush()
	enc := json.NewEncoder(w)
	for _, tr := range strings.Split(*trs, ",") {
		for i := 0; i < *n; i++ {
			kind := kinds[i%4]
			id := fmt.Sprintf("%s-%s-%d-%d", *what, tr, *seed, i)
			var s *Script
			switch *what {
			case "coop":
				s = cooperativeScript(r, kind, tr, id)
				if i%7 == 3 {
					s.Calls = 2 + r.Intn(5)
					s.ReqMD = true
				}
			case "race":
				s = cooperativeScript(r, kind, tr, id)
				s.CancelN = 2 + r.Intn(14)
				s.CancelW = []string{"cancel", "deadline"}[r.Intn(2)]
			}
			if tr == "http" || tr == "ref" {
				// over sockets a handler of an earlier, cancelled call may start
				// late: calls are told apart by a metadata key
				s.ReqMD = true
			}
			enc.Encode(s)
		}
	}
}
