package main

import (
	"strings"
	"sync"

	"github.com/fullstorydev/grpchan/httpgrpc"
	"github.com/fullstorydev/grpchan/inprocgrpc"
)

// Gates: with the verif build tag the library calls inprocgrpc.VerifHook and
// httpgrpc.VerifHook at named schedule points. A gated point blocks its goroutine until the
// scheduler releases it, which lets the harness place a cancellation exactly
// between two frame writes or between a frame read and the next select.

type gate struct {
	at      string // point the last goroutine parked at
	parked  int    // goroutines of the class held at the gate
	release chan struct{}
}

type gateSet struct {
	mu     sync.Mutex
	on     bool
	points map[string]bool
	g      map[string]*gate // class -> gate
	passed []string
}

var gates = &gateSet{g: map[string]*gate{}}

func gateClass(point string) string {
	switch {
	case strings.HasPrefix(point, "unary.srv."), strings.HasPrefix(point, "stream.fin."):
		return "srv"
	case strings.HasPrefix(point, "unary.cli."):
		return "cli"
	case point == "unary.copy":
		return "cpy"
	case point == "stream.clone":
		return "cln"
	case point == "mem.gone":
		return "env"
	// httpgrpc streams: one class per goroutine of the model
	case strings.HasPrefix(point, "http.send."):
		return "snd"
	case strings.HasPrefix(point, "http.close."):
		return "cls"
	case strings.HasPrefix(point, "http.recv."):
		return "rcv"
	case strings.HasPrefix(point, "http.rd."):
		return "rd"
	case point == "http.watch":
		return "wat"
	case strings.HasPrefix(point, "http.srv."):
		return "hsv"
	}
	return ""
}

func init() {
	hook := func(point string) {
		gates.mu.Lock()
		if !gates.on || !gates.points[point] {
			gates.mu.Unlock()
			return
		}
		cl := gateClass(point)
		g := gates.g[cl]
		if g == nil {
			g = &gate{release: make(chan struct{})}
			gates.g[cl] = g
		}
		g.at = point
		g.parked++
		gates.mu.Unlock()
		<-g.release
	}
	inprocgrpc.VerifHook = hook
	httpgrpc.VerifHook = hook
	gateHook = hook
}

// gateHook: the same hook for schedule points inside the harness's own
// stand-ins (the gated cloner)
var gateHook func(point string)

func (s *gateSet) enable(points []string) {
	s.mu.Lock()
	s.on = true
	s.points = map[string]bool{}
	for _, p := range points {
		s.points[p] = true
	}
	s.g = map[string]*gate{}
	s.mu.Unlock()
}

// releaseOne lets the goroutine parked at the gate of the class continue.
func (s *gateSet) releaseOne(class string) bool {
	s.mu.Lock()
	g := s.g[class]
	if g == nil || g.parked == 0 {
		s.mu.Unlock()
		return false
	}
	g.parked--
	s.mu.Unlock()
	g.release <- struct{}{}
	return true
}

// disable opens all gates for good.
func (s *gateSet) disable() {
	s.mu.Lock()
	s.on = false
	var parked []*gate
	for _, g := range s.g {
		for ; g.parked > 0; g.parked-- {
			parked = append(parked, g)
		}
	}
	s.mu.Unlock()
	for _, g := range parked {
		g.release <- struct{}{}
	}
}

// anyParked reports whether some goroutine is held at a gate (then a parked
// operation proves nothing: the harness itself is holding the system).
func (s *gateSet) anyParked() bool {
	s.mu.Lock()
	defer s.mu.Unlock()
	if !s.on {
		return false
	}
	for _, g := range s.g {
		if g.parked > 0 {
			return true
		}
	}
	return false
}
