package main

import (
	"fmt"
	"sync"
	"sync/atomic"

	"github.com/golang/protobuf/proto"
	"google.golang.org/grpc/encoding"
	grpcproto "google.golang.org/grpc/encoding/proto"

	"github.com/fullstorydev/grpchan/inprocgrpc"
)

var panicMu sync.Mutex
var panicLog [][2]string

func notePanic(who, text string) {
	panicMu.Lock()
	panicLog = append(panicLog, [2]string{who, text})
	panicMu.Unlock()
}

func takePanics() [][2]string {
	panicMu.Lock()
	defer panicMu.Unlock()
	p := panicLog
	panicLog = nil
	return p
}

// baseCloner returns one of the four cloner adapters of the library.
func baseCloner(name string) inprocgrpc.Cloner {
	switch name {
	case "codec":
		return inprocgrpc.CodecCloner(encoding.GetCodec(grpcproto.Name))
	case "clonefunc":
		return inprocgrpc.CloneFunc(func(in interface{}) (interface{}, error) {
			return proto.Clone(in.(proto.Message)), nil
		})
	case "copyfunc":
		return inprocgrpc.CopyFunc(func(out, in interface{}) error {
			o := out.(proto.Message)
			o.Reset()
			proto.Merge(o, in.(proto.Message))
			return nil
		})
	case "proto":
		return inprocgrpc.ProtoCloner{}
	}
	return nil
}

// faultCloner wraps a cloner and fails the n-th Clone or Copy on demand: the
// in-process equivalent of "a message cannot be encoded / decoded".
type faultCloner struct {
	inner    inprocgrpc.Cloner
	failKind string // clone | copy
	failAt   int32
	n        int32
	onFault  func()
}

func (f *faultCloner) Copy(out, in interface{}) error {
	if f.failKind == "copy" && atomic.AddInt32(&f.n, 1) == f.failAt {
		f.onFault()
		return fmt.Errorf("injected copy failure")
	}
	return f.inner.Copy(out, in)
}

func (f *faultCloner) Clone(in interface{}) (interface{}, error) {
	if f.failKind == "clone" && atomic.AddInt32(&f.n, 1) == f.failAt {
		f.onFault()
		return nil, fmt.Errorf("injected clone failure")
	}
	return f.inner.Clone(in)
}

// gatedCloner makes the copy of a unary request a schedule point: Copy parks at
// the gate "unary.copy" before it reads anything, i.e. inside the decode
// callback the library hands to the handler, after whatever check the library
// makes and before the request object is read.
//
// Clone (the copy SendMsg makes of a message, on either side of a stream,
// inside the sender's critical section) parks at "stream.clone".
type gatedCloner struct {
	inner  inprocgrpc.Cloner
	copies *int32
	gCopy  bool
	gClone bool
}

func (g gatedCloner) Copy(out, in interface{}) error {
	// only the first copy of a run: the decode of the unary request (later
	// copies -- the response on its way to the caller -- run freely)
	if g.gCopy && atomic.AddInt32(g.copies, 1) == 1 {
		gateHook("unary.copy")
	}
	return g.inner.Copy(out, in)
}

func (g gatedCloner) Clone(in interface{}) (interface{}, error) {
	if g.gClone {
		gateHook("stream.clone")
	}
	return g.inner.Clone(in)
}

func clonerFor(sc *Script) inprocgrpc.Cloner {
	cl := baseCloner(sc.Cloner)
	g := gatedCloner{copies: new(int32)}
	for _, p := range sc.Gates {
		if p == "unary.copy" {
			g.gCopy = true
		}
		if p == "stream.clone" {
			g.gClone = true
		}
	}
	if g.gCopy || g.gClone {
		if cl == nil {
			cl = inprocgrpc.ProtoCloner{}
		}
		g.inner = cl
		return g
	}
	return cl
}
