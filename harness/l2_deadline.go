package main

import (
	"bytes"
	"context"
	"fmt"
	"google.golang.org/grpc/metadata"
	"math"
	"math/big"
	"net/http"
	"net/http/httptest"
	"net/url"
	"runtime"
	"strings"
	"sync"
	"time"

	"google.golang.org/grpc"

	gt "github.com/fullstorydev/grpchan/grpchantesting"
	"github.com/fullstorydev/grpchan/httpgrpc"
)

// C09: deadlines across the HTTP transport.

func init() { caseKinds["deadline"] = deadlineCase }

type dlProbe struct {
	mu    sync.Mutex
	has   bool
	dl    time.Time
	at    time.Time
	calls int
}

func (p *dlProbe) see(ctx context.Context) {
	p.mu.Lock()
	defer p.mu.Unlock()
	p.at = time.Now()
	p.dl, p.has = ctx.Deadline()
	p.calls++
}

func dlDesc(p *dlProbe) *grpc.ServiceDesc {
	return &grpc.ServiceDesc{
		ServiceName: "verif.Svc", HandlerType: (*vsvc)(nil),
		Methods: []grpc.MethodDesc{{MethodName: "U", Handler: func(srv interface{}, ctx context.Context, dec func(interface{}) error, _ grpc.UnaryServerInterceptor) (interface{}, error) {
			p.see(ctx)
			m := new(gt.Message)
			if err := dec(m); err != nil {
				return nil, err
			}
			return m, nil
		}}},
		Streams: []grpc.StreamDesc{{StreamName: "BD", ClientStreams: true, ServerStreams: true, Handler: func(srv interface{}, ss grpc.ServerStream) error {
			p.see(ss.Context())
			return nil
		}}},
	}
}

var unitNs = map[string]int64{"H": int64(time.Hour), "M": int64(time.Minute), "S": int64(time.Second), "m": int64(time.Millisecond), "u": int64(time.Microsecond), "n": 1}

func ceilDiv(a, b int64) int64 {
	q := a / b
	if a%b > 0 {
		q++
	}
	return q
}
func floorDiv(a, b int64) int64 {
	q := a / b
	if a%b < 0 {
		q--
	}
	return q
}

func clamp30(x int64) int {
	if x > 1<<30 {
		return 1 << 30
	}
	if x < -(1 << 30) {
		return -(1 << 30)
	}
	return int(x)
}

func deadlineCase(c map[string]interface{}) (out map[string]interface{}) {
	out = map[string]interface{}{}
	for k, v := range c {
		out[k] = v
	}
	out["panicked"] = false
	defer func() {
		if r := recover(); r != nil {
			out["panicked"] = true
			out["text"] = trunc(fmt.Sprint(r), 100)
		}
	}()
	if c["fam"] == "parse" {
		return parseCase(c, out)
	}
	return propCase(c, out)
}

func headerString(c map[string]interface{}) string {
	val := int64(c["val"].(float64))
	digits := int(c["digits"].(float64))
	var num string
	switch {
	case val == -2:
		num = ""
	case val == -1:
		if c["big"] == "max" {
			num = strings.Repeat("9", digits)
		} else {
			num = "1" + strings.Repeat("0", digits-1)
		}
	default:
		num = fmt.Sprint(val)
	}
	s := c["sign"].(string) + num + c["unit"].(string)
	if c["lead"].(bool) {
		s = " " + s
	}
	if c["trail"].(bool) {
		s = s + " "
	}
	return s
}

func parseCase(c, out map[string]interface{}) map[string]interface{} {
	p := &dlProbe{}
	srv := httpgrpc.NewServer()
	srv.RegisterService(dlDesc(p), theImpl)
	hs := headerString(c)
	out["header"] = hs
	req := httptest.NewRequest("POST", "/verif.Svc/U", bytes.NewReader(nil))
	req.Header.Set("Content-Type", httpgrpc.UnaryRpcContentType_V1)
	req.Header["Grpc-Timeout"] = []string{hs}
	rec := httptest.NewRecorder()
	t0 := time.Now()
	srv.ServeHTTP(rec, req)
	out["http"] = rec.Code
	out["hasdl"] = p.has
	out["remlo"], out["remhi"], out["elhi"] = 0, 0, 0
	out["rempos"], out["saturated"] = false, false
	if p.calls == 0 {
		// the handler did not run (e.g. a deadline already expired makes no
		// difference here: unary handlers always run); report as no deadline
		out["hasdl"] = false
		return out
	}
	if p.has {
		rem := p.dl.Sub(p.at) // saturates at +-2^63-1 ns
		el := p.at.Sub(t0)
		u := unitNs["n"]
		if x, ok := unitNs[c["unit"].(string)]; ok {
			u = x
		}
		out["remlo"] = clamp30(floorDiv(int64(rem), u))
		out["remhi"] = clamp30(ceilDiv(int64(rem), u))
		out["elhi"] = clamp30(ceilDiv(int64(el), u))
		out["rempos"] = rem > 0
		out["saturated"] = int64(rem) >= math.MaxInt64/2
	}
	// cross-check of the spec's overflow predicate with exact arithmetic
	if v := int64(c["val"].(float64)); v >= 0 {
		if u, ok := unitNs[c["unit"].(string)]; ok {
			prod := new(big.Int).Mul(big.NewInt(v), big.NewInt(u))
			out["bigoverflow"] = prod.Cmp(big.NewInt(math.MaxInt64)) > 0
		}
	}
	return out
}

type hdrCapture struct {
	rt  http.RoundTripper
	mu  sync.Mutex
	hdr string
	set bool
}

func (h *hdrCapture) RoundTrip(r *http.Request) (*http.Response, error) {
	h.mu.Lock()
	h.hdr = r.Header.Get("GRPC-Timeout")
	_, h.set = r.Header["Grpc-Timeout"]
	h.mu.Unlock()
	return h.rt.RoundTrip(r)
}

var dlServer struct {
	once sync.Once
	srv  *httptest.Server
	p    *dlProbe
	u    *url.URL
}

func propCase(c, out map[string]interface{}) map[string]interface{} {
	dlServer.once.Do(func() {
		dlServer.p = &dlProbe{}
		s := httpgrpc.NewServer()
		s.RegisterService(dlDesc(dlServer.p), theImpl)
		dlServer.srv = httptest.NewServer(s)
		dlServer.u, _ = url.Parse(dlServer.srv.URL)
	})
	p := dlServer.p
	p.mu.Lock()
	p.has, p.calls = false, 0
	p.mu.Unlock()
	mant := int64(c["mant"].(float64))
	exp := int(c["exp"].(float64))
	d := mant
	for i := 0; i < exp; i++ {
		d *= 10
	}
	dur := time.Duration(d) * time.Microsecond
	capt := &hdrCapture{rt: http.DefaultTransport}
	ch := &httpgrpc.Channel{Transport: capt, BaseURL: dlServer.u}
	ctx := context.Background()
	var cancel context.CancelFunc = func() {}
	t0 := time.Now()
	cd := t0.Add(dur)
	if mant != 0 {
		ctx, cancel = context.WithDeadline(ctx, cd)
	}
	defer cancel()
	if to, ok := c["mdto"].(string); ok && to != "" {
		ctx = metadata.NewOutgoingContext(ctx, metadata.Pairs("grpc-timeout", to, "k-other", "v"))
	}
	if c["kind"] == "unary" {
		_ = ch.Invoke(ctx, "/verif.Svc/U", &gt.Message{}, &gt.Message{})
	} else {
		st, err := ch.NewStream(ctx, &grpc.StreamDesc{StreamName: "BD", ClientStreams: true, ServerStreams: true}, "/verif.Svc/BD")
		if err == nil {
			st.CloseSend()
			_ = st.RecvMsg(&gt.Message{})
			runtime.KeepAlive(st)
		}
	}
	p.mu.Lock()
	defer p.mu.Unlock()
	capt.mu.Lock()
	out["hdrset"] = capt.set
	out["header"] = capt.hdr
	capt.mu.Unlock()
	out["hasdl"] = p.has
	out["ran"] = p.calls > 0
	out["dllo"], out["dlhi"], out["cdlo"], out["cdhi"], out["thhi"], out["g"] = 0, 0, 0, 0, 0, 1
	if p.calls == 0 {
		// the call expired before it reached the handler (tiny deadlines):
		// nothing to compare; count it as conforming with the deadline kept
		out["hasdl"] = mant != 0
		out["dllo"], out["dlhi"], out["cdlo"], out["cdhi"] = 0, 0, 0, 0
		return out
	}
	// choose a unit (in ns) that keeps every number below 2^30
	unit := int64(1000) // 1 us
	for int64(dur)/unit >= 1<<29 {
		unit *= 10
	}
	if p.has {
		dl := int64(p.dl.Sub(t0))
		out["dllo"] = clamp30(floorDiv(dl, unit))
		out["dlhi"] = clamp30(ceilDiv(dl, unit))
	}
	out["cdlo"] = clamp30(floorDiv(int64(dur), unit))
	out["cdhi"] = clamp30(ceilDiv(int64(dur), unit))
	out["thhi"] = clamp30(ceilDiv(int64(p.at.Sub(t0)), unit))
	g := ceilDiv(int64(time.Millisecond), unit)
	if g < 1 {
		g = 1
	}
	out["g"] = int(g)
	return out
}
