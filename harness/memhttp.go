package main

import (
	"bytes"
	"context"
	"fmt"
	"io"
	"net/http"
	"strconv"
	"sync"
	"sync/atomic"
	"time"
)

// memTransport is an http.RoundTripper that hands the request to an
// http.Handler inside the process. All blocking is on Go primitives, so the
// scheduler's quiescence detection is exact. It reproduces the behaviour of
// net/http's HTTP/1.1 client and server that matters to a streaming call
// (measured against the real ones, see DESIGN.md):
//   - the response becomes visible to the client at the server's first Flush
//     (or when the handler returns), and before sending the response header the
//     server consumes up to 256 KiB of unread request body, i.e. it waits for
//     the end of a streamed request;
//   - when the client's request context ends, RoundTrip and reads of the
//     response body fail with the context's error; the handler's context is
//     cancelled once the server notices: at a read of the request body (which
//     fails) or at once if the request body had been read to its end;
//   - the handler's context is cancelled when ServeHTTP returns.
//   - (slow > 0, free-running scripts only) the reply body trickles in: the
//     client's reads get a bounded number of bytes each, a moment apart, and
//     the body of an error reply arrives well after its header -- a slow
//     network or a proxy between the two.
type memTransport struct {
	h     http.Handler
	slow  int64 // seed of the slow-reply environment, 0 = off
	nslow int64
}

const maxPostHandlerReadBytes = 256 << 10

type memCall struct {
	mu       sync.Mutex
	cond     *sync.Cond
	ctx      context.Context // client's
	sctx     context.Context
	scancel  context.CancelFunc
	aborted  bool // client went away
	bodyEOF  bool // server read the request body to its end
	bodyShut bool // net/http closed the request body (at the first flush of the reply)
	src      io.ReadCloser
	in       bytes.Buffer // request body bytes on "the wire", not yet read by the server
	inEOF    bool
	inErr    error
	pumpDone chan struct{}

	// response
	hdr        http.Header
	status     int
	wrote      bool
	sent       bool
	sentCh     chan struct{}
	snap       http.Header
	unflushed  bytes.Buffer
	out        bytes.Buffer // flushed, not yet read by the client
	finished   bool
	ferr       error
	werr       error
	clientGone bool
	chunk      int // slow replies: bytes per read ...
	delay      time.Duration
	errDelay   time.Duration // ... and the wait before each read (of an error reply)
}

// ---- request body as seen by the server

type memReqBody struct {
	c        *memCall
	internal bool // the server's own reads (discarding the rest of the body)
}

func (b *memReqBody) Read(p []byte) (int, error) {
	c := b.c
	c.mu.Lock()
	defer c.mu.Unlock()
	for {
		if c.bodyShut && !b.internal {
			return 0, http.ErrBodyReadAfterClose
		}
		if c.in.Len() > 0 {
			return c.in.Read(p)
		}
		if c.aborted || c.inErr != nil {
			// for the server the connection broke
			c.scancel()
			return 0, io.ErrUnexpectedEOF
		}
		if c.inEOF {
			c.bodyEOF = true
			return 0, io.EOF
		}
		c.cond.Wait()
	}
}

// pump plays the role of http.Transport's write loop: it copies the request
// body to "the wire" as fast as the client produces it.
func (c *memCall) pump() {
	defer close(c.pumpDone)
	buf := make([]byte, 32<<10)
	for {
		n, err := c.src.Read(buf)
		c.mu.Lock()
		if n > 0 {
			c.in.Write(buf[:n])
		}
		if err == io.EOF {
			c.inEOF = true
		} else if err != nil {
			c.inErr = err
		}
		c.cond.Broadcast()
		c.mu.Unlock()
		if err != nil {
			return
		}
	}
}

func (b *memReqBody) Close() error { return nil }

// ---- response writer

type memRW struct{ c *memCall }

func (w *memRW) Header() http.Header { return w.c.hdr }

func (w *memRW) WriteHeader(code int) {
	c := w.c
	c.mu.Lock()
	defer c.mu.Unlock()
	if c.wrote {
		return
	}
	c.wrote = true
	c.status = code
	c.snap = c.hdr.Clone()
}

func (w *memRW) Write(p []byte) (int, error) {
	w.WriteHeader(http.StatusOK)
	c := w.c
	c.mu.Lock()
	if c.werr != nil {
		err := c.werr
		c.mu.Unlock()
		return 0, err
	}
	c.unflushed.Write(p)
	big := c.unflushed.Len() > 2048
	c.mu.Unlock()
	if big {
		w.Flush()
	}
	return len(p), nil
}

func (w *memRW) Flush() {
	w.WriteHeader(http.StatusOK)
	c := w.c
	c.mu.Lock()
	sent := c.sent
	c.mu.Unlock()
	if !sent {
		// net/http: before the response header goes out the rest of the
		// request body is consumed (up to a limit)
		// (and the body is closed: the handler's later reads fail with
		// http.ErrBodyReadAfterClose -- HTTP/1.1 replies are half-duplex)
		n, err := io.CopyN(io.Discard, &memReqBody{c: c, internal: true}, maxPostHandlerReadBytes+1)
		_ = n
		c.mu.Lock()
		c.bodyShut = true
		if err == nil {
			// too big: the server answers and closes the connection
			c.aborted = true
		}
		c.sent = true
		close(c.sentCh)
		c.mu.Unlock()
	}
	c.mu.Lock()
	if c.aborted || c.clientGone {
		c.werr = fmt.Errorf("write: broken pipe")
		c.unflushed.Reset()
	} else {
		c.out.Write(c.unflushed.Bytes())
		c.unflushed.Reset()
	}
	c.cond.Broadcast()
	c.mu.Unlock()
}

// ---- response body as seen by the client

type memRespBody struct{ c *memCall }

func (b *memRespBody) Read(p []byte) (int, error) {
	c := b.c
	if c.chunk > 0 {
		d := c.delay
		if c.status != http.StatusOK {
			d = c.errDelay
		}
		select {
		case <-time.After(d):
		case <-c.ctx.Done():
		}
		if len(p) > c.chunk {
			p = p[:c.chunk]
		}
	}
	c.mu.Lock()
	defer c.mu.Unlock()
	for {
		if err := c.ctx.Err(); err != nil {
			return 0, err
		}
		if c.out.Len() > 0 {
			return c.out.Read(p)
		}
		if c.finished {
			if c.ferr != nil {
				return 0, c.ferr
			}
			return 0, io.EOF
		}
		c.cond.Wait()
	}
}

func (b *memRespBody) Close() error {
	c := b.c
	c.mu.Lock()
	c.clientGone = true
	c.mu.Unlock()
	return nil
}

func (t *memTransport) RoundTrip(req *http.Request) (*http.Response, error) {
	ctx := req.Context()
	if err := ctx.Err(); err != nil {
		if req.Body != nil {
			req.Body.Close()
		}
		return nil, err
	}
	c := &memCall{ctx: ctx, hdr: http.Header{}, sentCh: make(chan struct{}), pumpDone: make(chan struct{})}
	c.cond = sync.NewCond(&c.mu)
	if sl := atomic.LoadInt64(&t.slow); sl != 0 {
		n := sl + atomic.AddInt64(&t.nslow, 1)*7
		c.chunk = []int{16, 16, 700, 4096}[(sl>>1)%4] // (one size per script)
		c.delay = []time.Duration{30, 120, 400}[(n/4)%3] * time.Microsecond
		c.errDelay = []time.Duration{500, 2000, 6000}[(n/12)%3] * time.Microsecond
	}
	c.sctx, c.scancel = context.WithCancel(context.Background())
	c.src = req.Body
	if c.src == nil {
		c.src = io.NopCloser(bytes.NewReader(nil))
	}
	go c.pump()
	sreq, err := http.NewRequestWithContext(c.sctx, req.Method, req.URL.String(), &memReqBody{c: c})
	if err != nil {
		return nil, err
	}
	sreq.Header = req.Header.Clone()
	sreq.ContentLength = req.ContentLength
	if req.ContentLength < 0 || (req.ContentLength == 0 && req.Body != nil && req.Body != http.NoBody) {
		sreq.ContentLength = -1
		sreq.TransferEncoding = []string{"chunked"}
	}
	sreq.RemoteAddr = "127.0.0.1:1"
	sreq.RequestURI = req.URL.RequestURI()
	sreq.Host = req.URL.Host

	// the client going away
	stop := make(chan struct{})
	go func() {
		select {
		case <-ctx.Done():
			// (a schedule point: the moment the server side of the
			// connection learns that the client has gone)
			gateHook("mem.gone")
			c.mu.Lock()
			c.aborted = true
			eof := c.bodyEOF
			c.cond.Broadcast()
			c.mu.Unlock()
			if eof {
				c.scancel()
			}
		case <-stop:
		}
	}()

	go func() {
		rw := &memRW{c}
		defer func() {
			r := recover()
			if r == nil {
				rw.Flush()
			}
			c.mu.Lock()
			c.finished = true
			if r != nil {
				c.ferr = io.ErrUnexpectedEOF
				if !c.sent {
					c.sent = true
					c.status = 500
					c.snap = http.Header{}
					close(c.sentCh)
				}
			}
			c.cond.Broadcast()
			c.mu.Unlock()
			c.scancel()
			close(stop)
			if r != nil {
				// net/http recovers a handler panic and drops the
				// connection; the harness reports it as an event
				notePanic("srv", fmt.Sprint(r))
			}
		}()
		t.h.ServeHTTP(rw, sreq)
	}()

	select {
	case <-c.sentCh:
	case <-ctx.Done():
		// net/http (persistConn.mapRoundTripError): a failed round trip
		// waits for the write loop, i.e. for the pending read of the
		// request body, to end before it returns
		<-c.pumpDone
		return nil, ctx.Err()
	}
	c.mu.Lock()
	status := c.status
	hdr := c.snap
	c.mu.Unlock()
	if hdr == nil {
		hdr = http.Header{}
	}
	resp := &http.Response{
		StatusCode:    status,
		Status:        strconv.Itoa(status) + " " + http.StatusText(status),
		Proto:         "HTTP/1.1",
		ProtoMajor:    1,
		ProtoMinor:    1,
		Header:        hdr,
		Body:          &memRespBody{c},
		ContentLength: -1,
		Request:       req,
	}
	if cl := hdr.Get("Content-Length"); cl != "" {
		if n, err := strconv.ParseInt(cl, 10, 64); err == nil {
			resp.ContentLength = n
		}
	}
	return resp, nil
}
