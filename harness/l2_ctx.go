package main

import (
	"context"
	"fmt"
	"net"
	"runtime"
	"sync"
	"time"

	"google.golang.org/grpc"
	"google.golang.org/grpc/credentials/insecure"
	"google.golang.org/grpc/metadata"
	"google.golang.org/grpc/peer"

	gt "github.com/fullstorydev/grpchan/grpchantesting"
	"github.com/fullstorydev/grpchan/inprocgrpc"
)

// C10: what an in-process handler's context exposes.

func init() { caseKinds["ctxiso"] = ctxCase }

type plainKey struct{ n int }

// context keys of many dynamic types (a key can be any comparable value)
var (
	keyInt      int
	keyString   = "s"
	keyStruct   = plainKey{9}
	keyChan     = make(chan int)
	pointerKeys = []interface{}{&keyInt, &keyString, &keyStruct, new(float64), new(interface{}), new(*int)}
	scalarKeys  = []interface{}{int(7), int64(7), uint8(7), 3.5, true, 'x', [2]int{1, 2}, [1]string{"a"}, uintptr(9)}
	otherKeys   = []interface{}{keyChan, error(ctxKeyErr{}), fmt.Stringer(ctxKeyErr{})}
)

type ctxKeyErr struct{}

func (ctxKeyErr) Error() string  { return "k" }
func (ctxKeyErr) String() string { return "k" }

type ctxProbe struct {
	mu       sync.Mutex
	ran      bool
	failed   map[string]bool
	wantDL   time.Time
	hasDL    bool
	callerMD metadata.MD
	cancel   context.CancelFunc
	method   string
	mutated  chan struct{}
}

func (p *ctxProbe) fail(f string) {
	p.mu.Lock()
	p.failed[f] = true
	p.mu.Unlock()
}

// inspect runs inside the handler (and inside the server interceptor).
func (p *ctxProbe) inspect(ctx context.Context, final bool) {
	p.mu.Lock()
	p.ran = true
	p.mu.Unlock()
	if ctx.Value("plain-string") != nil {
		p.fail("plain-string-key-hidden")
	}
	if ctx.Value(plainKey{1}) != nil {
		p.fail("plain-struct-key-hidden")
	}
	for _, k := range pointerKeys {
		if ctx.Value(k) != nil {
			p.fail("pointer-keys-hidden")
		}
	}
	for _, k := range scalarKeys {
		if ctx.Value(k) != nil {
			p.fail("scalar-and-array-keys-hidden")
		}
	}
	for _, k := range otherKeys {
		if ctx.Value(k) != nil {
			p.fail("interface-and-channel-keys-hidden")
		}
	}
	if md, ok := metadata.FromOutgoingContext(ctx); ok && len(md) > 0 {
		p.fail("outgoing-md-not-outgoing-in-handler")
	}
	in, _ := metadata.FromIncomingContext(ctx)
	if len(in.Get("out-key")) != 2 || in.Get("out-key")[0] != "o1" || in.Get("out-key")[1] != "o2" {
		p.fail("incoming-md-is-callers-outgoing")
	}
	if len(in.Get("enclosing-key")) != 0 {
		p.fail("incoming-md-not-enclosing")
	}
	pr, ok := peer.FromContext(ctx)
	if !ok || pr.Addr == nil || pr.Addr.Network() != "inproc" {
		p.fail("peer-is-inproc")
	}
	if m, ok := grpc.Method(ctx); !ok || m != p.method {
		p.fail("method-is-this-call")
	}
	dl, has := ctx.Deadline()
	if p.hasDL {
		if !has || !dl.Equal(p.wantDL) {
			p.fail("deadline-is-callers")
		}
	} else if has {
		p.fail("no-deadline-invented")
	}
	cc := inprocgrpc.ClientContext(ctx)
	if cc == nil || cc.Value("plain-string") != "ps" || cc.Value(plainKey{1}) != "pk" {
		p.fail("clientctx-has-plain-keys")
	}
	if cc != nil {
		cdl, chas := cc.Deadline()
		if chas != p.hasDL || (chas && !cdl.Equal(p.wantDL)) {
			p.fail("clientctx-deadline")
		}
	}
	if !final {
		return
	}
	// metadata aliasing, both directions
	in["out-key"][0] = "clobbered"
	in["added-by-handler"] = []string{"x"}
	if p.callerMD.Get("out-key")[0] != "o1" || len(p.callerMD.Get("added-by-handler")) != 0 {
		p.fail("handler-md-mutation-invisible-to-caller")
	}
	p.callerMD["out-key"][1] = "changed-by-caller"
	in2, _ := metadata.FromIncomingContext(ctx)
	if in2.Get("out-key")[1] != "o2" {
		p.fail("caller-md-mutation-invisible-to-handler")
	}
	// cancellation follows the caller's
	p.cancel()
	select {
	case <-ctx.Done():
	case <-time.After(2 * time.Second):
		p.fail("cancel-follows-caller")
	}
}

func ctxDesc(p *ctxProbe) *grpc.ServiceDesc {
	return &grpc.ServiceDesc{ServiceName: "verif.Svc", HandlerType: (*vsvc)(nil),
		Methods: []grpc.MethodDesc{{MethodName: "U", Handler: func(srv interface{}, ctx context.Context, dec func(interface{}) error, ic grpc.UnaryServerInterceptor) (interface{}, error) {
			m := new(gt.Message)
			if err := dec(m); err != nil {
				return nil, err
			}
			h := func(ctx context.Context, req interface{}) (interface{}, error) {
				p.inspect(ctx, true)
				return m, nil
			}
			if ic != nil {
				return ic(ctx, m, &grpc.UnaryServerInfo{Server: srv, FullMethod: "/verif.Svc/U"}, h)
			}
			return h(ctx, m)
		}}},
		Streams: []grpc.StreamDesc{{StreamName: "BD", ClientStreams: true, ServerStreams: true, Handler: func(srv interface{}, ss grpc.ServerStream) error {
			p.inspect(ss.Context(), true)
			return nil
		}}},
	}
}

// the real gRPC server whose handler makes the nested in-process call
var outerGrpc struct {
	once sync.Once
	cc   *grpc.ClientConn
	mu   sync.Mutex
	fn   func(ctx context.Context)
}

func outerDesc() *grpc.ServiceDesc {
	return &grpc.ServiceDesc{ServiceName: "outer.Svc", HandlerType: (*vsvc)(nil),
		Methods: []grpc.MethodDesc{{MethodName: "Outer", Handler: func(srv interface{}, ctx context.Context, dec func(interface{}) error, _ grpc.UnaryServerInterceptor) (interface{}, error) {
			m := new(gt.Message)
			if err := dec(m); err != nil {
				return nil, err
			}
			outerGrpc.mu.Lock()
			fn := outerGrpc.fn
			outerGrpc.mu.Unlock()
			if fn != nil {
				fn(ctx)
			}
			return m, nil
		}}}}
}

func ctxCase(c map[string]interface{}) (out map[string]interface{}) {
	out = map[string]interface{}{}
	for k, v := range c {
		out[k] = v
	}
	out["panicked"] = false
	out["ran"] = false
	out["failed"] = []string{}
	defer func() {
		if r := recover(); r != nil {
			out["panicked"] = true
			out["text"] = trunc(fmt.Sprint(r), 100)
		}
	}()
	p := &ctxProbe{failed: map[string]bool{}}
	kind := c["kind"].(string)
	p.method = "/verif.Svc/U"
	if kind == "stream" {
		p.method = "/verif.Svc/BD"
	}
	ch := &inprocgrpc.Channel{}
	ch.RegisterService(ctxDesc(p), theImpl)
	if c["interceptor"].(bool) {
		ch.WithServerUnaryInterceptor(func(ctx context.Context, req interface{}, info *grpc.UnaryServerInfo, handler grpc.UnaryHandler) (interface{}, error) {
			p.inspect(ctx, false)
			return handler(ctx, req)
		})
		ch.WithServerStreamInterceptor(func(srv interface{}, ss grpc.ServerStream, info *grpc.StreamServerInfo, handler grpc.StreamHandler) error {
			p.inspect(ss.Context(), false)
			return handler(srv, ss)
		})
	}
	// the call, made with a context derived from base
	doCall := func(base context.Context) {
		ctx := context.WithValue(base, "plain-string", "ps")
		ctx = context.WithValue(ctx, plainKey{1}, "pk")
		for i, ks := range [][]interface{}{pointerKeys, scalarKeys, otherKeys} {
			for j, k := range ks {
				ctx = context.WithValue(ctx, k, fmt.Sprintf("v%d.%d", i, j))
			}
		}
		p.callerMD = metadata.Pairs("out-key", "o1", "out-key", "o2")
		ctx = metadata.NewOutgoingContext(ctx, p.callerMD)
		var cancel context.CancelFunc
		if c["deadline"].(bool) {
			p.hasDL = true
			p.wantDL = time.Now().Add(time.Hour)
			ctx, cancel = context.WithDeadline(ctx, p.wantDL)
		} else {
			ctx, cancel = context.WithCancel(ctx)
		}
		p.cancel = cancel
		defer cancel()
		if kind == "unary" {
			_ = ch.Invoke(ctx, p.method, &gt.Message{}, &gt.Message{})
		} else {
			st, err := ch.NewStream(ctx, &grpc.StreamDesc{StreamName: "BD", ClientStreams: true, ServerStreams: true}, p.method)
			if err == nil {
				st.CloseSend()
				_ = st.RecvMsg(&gt.Message{})
				runtime.KeepAlive(st)
			}
		}
	}
	switch c["nesting"] {
	case "top":
		doCall(context.Background())
	case "in-inproc-handler":
		outer := &inprocgrpc.Channel{}
		d := outerDesc()
		outerGrpc.mu.Lock()
		outerGrpc.fn = doCall
		outerGrpc.mu.Unlock()
		outer.RegisterService(d, theImpl)
		octx := metadata.NewOutgoingContext(context.Background(), metadata.Pairs("enclosing-key", "e"))
		_ = outer.Invoke(octx, "/outer.Svc/Outer", &gt.Message{}, &gt.Message{})
	default:
		outerGrpc.once.Do(func() {
			lis, err := net.Listen("tcp", "127.0.0.1:0")
			if err != nil {
				panic(err)
			}
			s := grpc.NewServer()
			s.RegisterService(outerDesc(), theImpl)
			go s.Serve(lis)
			cc, err := grpc.Dial(lis.Addr().String(), grpc.WithTransportCredentials(insecure.NewCredentials()), grpc.WithBlock())
			if err != nil {
				panic(err)
			}
			outerGrpc.cc = cc
		})
		outerGrpc.mu.Lock()
		outerGrpc.fn = doCall
		outerGrpc.mu.Unlock()
		octx := metadata.NewOutgoingContext(context.Background(), metadata.Pairs("enclosing-key", "e"))
		_ = outerGrpc.cc.Invoke(octx, "/outer.Svc/Outer", &gt.Message{}, &gt.Message{})
	}
	p.mu.Lock()
	defer p.mu.Unlock()
	out["ran"] = p.ran
	failed := []string{}
	for f := range p.failed {
		failed = append(failed, f)
	}
	out["failed"] = failed
	return out
}
