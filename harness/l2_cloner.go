package main

import (
	"context"
	"fmt"
	"io"
	"reflect"
	"runtime"
	"strings"

	"github.com/golang/protobuf/proto"
	"github.com/jhump/protoreflect/dynamic"
	"google.golang.org/grpc"
	"google.golang.org/grpc/encoding"
	grpcproto "google.golang.org/grpc/encoding/proto"
	"google.golang.org/protobuf/types/known/anypb"
	"google.golang.org/protobuf/types/known/durationpb"

	gt "github.com/fullstorydev/grpchan/grpchantesting"
	"github.com/fullstorydev/grpchan/httpgrpc"
	"github.com/fullstorydev/grpchan/inprocgrpc"
)

// C18 / C06: message copying.

func init() { caseKinds["cloner"] = clonerCase }

// ---- heap graph walk: the set of mutable memory blocks reachable from v

type memSet map[uintptr]string

func sharedType(t reflect.Type) bool {
	p := t.PkgPath()
	// descriptors, message infos and other per-type metadata are shared by
	// all messages of a type and never mutated
	return strings.Contains(p, "protobuf/internal") || strings.Contains(p, "protobuf/runtime/protoimpl") ||
		strings.Contains(p, "protoreflect/desc") || strings.Contains(p, "protobuf/reflect/protoreflect") ||
		strings.Contains(p, "descriptorpb") || strings.Contains(p, "protoregistry") ||
		strings.HasSuffix(p, "jhump/protoreflect/dynamic") && (t.Name() == "MessageFactory" || t.Name() == "ExtensionRegistry" || t.Name() == "KnownTypeRegistry")
}

func walkMem(v reflect.Value, out memSet, seen map[uintptr]bool, depth int) {
	if depth > 40 || !v.IsValid() {
		return
	}
	switch v.Kind() {
	case reflect.Ptr:
		if v.IsNil() {
			return
		}
		if sharedType(v.Type().Elem()) {
			return
		}
		p := v.Pointer()
		if seen[p] {
			return
		}
		seen[p] = true
		if v.Type().Elem().Kind() == reflect.Struct {
			out[p] = "ptr:" + v.Type().Elem().Name()
		}
		walkMem(v.Elem(), out, seen, depth+1)
	case reflect.Interface:
		if !v.IsNil() {
			walkMem(v.Elem(), out, seen, depth+1)
		}
	case reflect.Struct:
		if sharedType(v.Type()) {
			return
		}
		for i := 0; i < v.NumField(); i++ {
			walkMem(v.Field(i), out, seen, depth+1)
		}
	case reflect.Slice:
		if v.IsNil() || v.Cap() == 0 {
			return
		}
		out[v.Pointer()] = "slice"
		switch v.Type().Elem().Kind() {
		case reflect.Ptr, reflect.Interface, reflect.Struct, reflect.Slice, reflect.Map:
			for i := 0; i < v.Len(); i++ {
				walkMem(v.Index(i), out, seen, depth+1)
			}
		}
	case reflect.Map:
		if v.IsNil() {
			return
		}
		out[v.Pointer()] = "map"
		it := v.MapRange()
		for it.Next() {
			walkMem(it.Key(), out, seen, depth+1)
			walkMem(it.Value(), out, seen, depth+1)
		}
	}
}

func memOf(x interface{}) memSet {
	out := memSet{}
	walkMem(reflect.ValueOf(x), out, map[uintptr]bool{}, 0)
	return out
}

func disjoint(a, b interface{}) bool {
	ma, mb := memOf(a), memOf(b)
	for p := range ma {
		if _, ok := mb[p]; ok {
			return false
		}
	}
	return true
}

// ---- instantiating shapes

func hasFeat(c map[string]interface{}, f string) bool {
	for _, x := range c["shape"].([]interface{}) {
		if x.(string) == f {
			return true
		}
	}
	return false
}

func shapeMessage(c map[string]interface{}, salt byte) *gt.Message {
	m := &gt.Message{}
	if hasFeat(c, "scalar") {
		m.Count, m.Code, m.DelayMillis = 7+int32(salt), -3, 1<<30
	}
	if hasFeat(c, "bytes") {
		m.Payload = []byte{1, 2, 3, salt, 0, 0xff}
	}
	if hasFeat(c, "map") {
		m.Headers = map[string][]byte{"a": {1, salt}, "": {}, "c": nil}
		m.Trailers = map[string][]byte{"t": {9, 9, salt}}
	}
	if hasFeat(c, "repeated") {
		a1, _ := anypb.New(durationpb.New(1234567))
		m.ErrorDetails = append(m.ErrorDetails, a1, &anypb.Any{TypeUrl: "type/unknown", Value: []byte{salt, 5}})
	}
	if hasFeat(c, "nested") {
		inner := &gt.Message{Payload: []byte{7, 7, salt}, Headers: map[string][]byte{"in": {1}}}
		a, _ := anypb.New(proto.MessageV2(inner))
		m.ErrorDetails = append(m.ErrorDetails, a)
	}
	if hasFeat(c, "unknown") {
		// field 99 varint 5, field 100 bytes "xy"
		proto.MessageV2(m).ProtoReflect().SetUnknown([]byte{0x98, 0x06, 0x05, 0xa2, 0x06, 0x02, 'x', salt})
	}
	return m
}

func shapeTrailer(c map[string]interface{}, salt byte) *httpgrpc.HttpTrailer {
	t := &httpgrpc.HttpTrailer{}
	if hasFeat(c, "scalar") {
		t.Code = 5 + int32(salt)
	}
	if hasFeat(c, "bytes") {
		t.Message = "msg" + string(rune('a'+salt%20))
	}
	if hasFeat(c, "map") || hasFeat(c, "nested") {
		t.Metadata = map[string]*httpgrpc.TrailerValues{"k": {Values: []string{"v1", "v2"}}, "e": {}}
	}
	if hasFeat(c, "repeated") {
		a1, _ := anypb.New(durationpb.New(99))
		t.Details = []*anypb.Any{a1}
	}
	if hasFeat(c, "unknown") {
		t.ProtoReflect().SetUnknown([]byte{0x98, 0x06, salt})
	}
	return t
}

func makeSrc(c map[string]interface{}, salt byte) proto.Message {
	switch c["type"] {
	case "HttpTrailer":
		return shapeTrailer(c, salt)
	case "Duration":
		d := &durationpb.Duration{}
		if hasFeat(c, "scalar") {
			d.Seconds, d.Nanos = 12+int64(salt), 34
		}
		return proto.MessageV1(d)
	}
	return shapeMessage(c, salt)
}

func emptyOf(c map[string]interface{}) proto.Message {
	switch c["type"] {
	case "HttpTrailer":
		return &httpgrpc.HttpTrailer{}
	case "Duration":
		return proto.MessageV1(&durationpb.Duration{})
	}
	return &gt.Message{}
}

func toDyn(m proto.Message) *dynamic.Message {
	d, err := dynamic.AsDynamicMessage(m)
	if err != nil {
		panic("harness: cannot build dynamic message: " + err.Error())
	}
	return d
}

// user-supplied functions for the function-based adapters: correct for same
// typed protobuf messages, an error for anything else
func userClone(in interface{}) (interface{}, error) {
	switch m := in.(type) {
	case *dynamic.Message:
		// (dynamic.Message.Merge copies byte slices by reference and skips
		// unknown fields, so a correct clone goes through the wire format)
		b, err := m.Marshal()
		if err != nil {
			return nil, err
		}
		d := dynamic.NewMessage(m.GetMessageDescriptor())
		if err := d.Unmarshal(b); err != nil {
			return nil, err
		}
		return d, nil
	case proto.Message:
		return proto.Clone(m), nil
	}
	return nil, fmt.Errorf("not a protobuf message: %T", in)
}

func userCopy(out, in interface{}) error {
	pi, ok1 := in.(proto.Message)
	po, ok2 := out.(proto.Message)
	if !ok1 || !ok2 {
		return fmt.Errorf("not protobuf messages: %T, %T", out, in)
	}
	if reflect.TypeOf(pi) != reflect.TypeOf(po) {
		return fmt.Errorf("different types: %T, %T", out, in)
	}
	if di, ok := pi.(*dynamic.Message); ok {
		do := po.(*dynamic.Message)
		if do.GetMessageDescriptor().GetFullyQualifiedName() != di.GetMessageDescriptor().GetFullyQualifiedName() {
			return fmt.Errorf("different message types")
		}
		b, err := di.Marshal()
		if err != nil {
			return err
		}
		do.Reset()
		return do.Unmarshal(b)
	}
	if proto.MessageName(pi) != proto.MessageName(po) {
		return fmt.Errorf("different message types")
	}
	po.Reset()
	proto.Merge(po, pi)
	return nil
}

func adapterFor(name string) inprocgrpc.Cloner {
	switch name {
	case "proto":
		return inprocgrpc.ProtoCloner{}
	case "codec":
		return inprocgrpc.CodecCloner(encoding.GetCodec(grpcproto.Name))
	case "clonefunc":
		return inprocgrpc.CloneFunc(userClone)
	case "copyfunc":
		return inprocgrpc.CopyFunc(userCopy)
	}
	return nil
}

func protoEqualAny(a, b interface{}) bool {
	pa, ok1 := a.(proto.Message)
	pb, ok2 := b.(proto.Message)
	if !ok1 || !ok2 {
		return false
	}
	// compare in the generated representation where possible
	norm := func(m proto.Message) proto.Message {
		if d, ok := m.(*dynamic.Message); ok {
			var g proto.Message
			switch d.GetMessageDescriptor().GetFullyQualifiedName() {
			case "grpchantesting.Message":
				g = &gt.Message{}
			case "fullstorydev.grpchan.httpgrpc.HttpTrailer":
				g = &httpgrpc.HttpTrailer{}
			case "google.protobuf.Duration":
				g = proto.MessageV1(&durationpb.Duration{})
			default:
				return m
			}
			b, err := d.Marshal()
			if err != nil {
				return m
			}
			if err := proto.Unmarshal(b, g); err != nil {
				return m
			}
			return g
		}
		return m
	}
	return proto.Equal(norm(pa), norm(pb))
}

type nonProto struct {
	X int
	B []byte
}

func adapterCase(c, out map[string]interface{}) {
	cl := adapterFor(c["adapter"].(string))
	src := makeSrc(c, 1)
	snapshot := makeSrc(c, 1)
	var srcObj interface{} = src
	if c["srcrep"] == "dyn" {
		srcObj = toDyn(src)
	}
	var res interface{}
	var err error
	if c["op"] == "clone" {
		res, err = cl.Clone(srcObj)
	} else {
		var dst interface{}
		switch c["dst"] {
		case "empty":
			dst = emptyOf(c)
		case "populated":
			dst = makeSrc(map[string]interface{}{"type": c["type"], "shape": []interface{}{"scalar", "bytes", "repeated", "map", "nested", "unknown"}}, 77)
		case "dyn-empty":
			dst = toDyn(emptyOf(c))
		case "dyn-populated":
			dst = toDyn(makeSrc(map[string]interface{}{"type": c["type"], "shape": []interface{}{"scalar", "bytes", "repeated", "map", "nested"}}, 77))
		case "othertype":
			if c["type"] == "Message" {
				dst = &httpgrpc.HttpTrailer{Code: 3, Message: "keep"}
			} else {
				dst = &gt.Message{Count: 3, Payload: []byte("keep")}
			}
		case "dyn-othertype":
			if c["type"] == "Message" {
				dst = toDyn(&httpgrpc.HttpTrailer{Code: 3, Message: "keep"})
			} else {
				dst = toDyn(&gt.Message{Count: 3, Payload: []byte("keep")})
			}
		default:
			dst = &nonProto{X: 4, B: []byte("np")}
		}
		err = cl.Copy(dst, srcObj)
		res = dst
	}
	out["err"] = err != nil
	if err != nil {
		out["text"] = trunc(err.Error(), 100)
	}
	out["equal"] = err == nil && protoEqualAny(res, srcObj)
	out["disjoint"] = res == nil || disjoint(res, srcObj)
	out["srcsame"] = protoEqualAny(srcObj, snapshot)
	runtime.KeepAlive(src)
}

// ---- through an in-process RPC (C06)

func rpcCase(c, out map[string]interface{}) {
	var cl inprocgrpc.Cloner
	if c["cloner"] != "default" {
		cl = adapterFor(c["cloner"].(string))
	}
	kind := c["kind"].(string)
	dirReq := c["dir"] == "request"
	sent := shapeMessage(c, 2)
	orig := shapeMessage(c, 2)
	// what is handed to the library: the generated message or its dynamic twin
	var sentObj interface{} = sent
	var sentDyn *dynamic.Message
	if c["rep"] == "dyn" {
		sentDyn = toDyn(sent)
		sentObj = sentDyn
	}
	var hGot, cGot *gt.Message
	full := []interface{}{"scalar", "bytes", "repeated", "map", "nested"}
	stale := func() *gt.Message { return shapeMessage(map[string]interface{}{"shape": full}, 55) }
	var mutate func(m *gt.Message)
	mutate = func(m *gt.Message) {
		m.Count = -999
		if len(m.Payload) > 0 {
			m.Payload[0] = 0xEE
		}
		for k := range m.Headers {
			m.Headers[k] = []byte("mutated")
		}
		m.Headers = map[string][]byte{"new": []byte("x")}
		if len(m.ErrorDetails) > 0 {
			m.ErrorDetails[0].Value = []byte("mutated")
		}
	}
	mutateGen := mutate
	mutate = func(m *gt.Message) {
		if sentDyn == nil {
			mutateGen(m)
			return
		}
		// reuse the dynamic message in place
		if b, ok := sentDyn.GetFieldByNumber(1).([]byte); ok && len(b) > 0 {
			b[0] = 0xEE
		}
		for _, fn := range []int{5, 6} {
			if mp, ok := sentDyn.GetFieldByNumber(fn).(map[interface{}]interface{}); ok {
				for _, v := range mp {
					if b, ok := v.([]byte); ok {
						for i := range b {
							b[i] = 0xEE
						}
					}
				}
			}
		}
		sentDyn.SetFieldByNumber(2, int32(-999))
	}
	aftersend := true
	hold := make(chan struct{})
	desc := &grpc.ServiceDesc{ServiceName: "verif.Svc", HandlerType: (*vsvc)(nil),
		Methods: []grpc.MethodDesc{{MethodName: "U", Handler: func(srv interface{}, ctx context.Context, dec func(interface{}) error, _ grpc.UnaryServerInterceptor) (interface{}, error) {
			in := stale()
			if err := dec(in); err != nil {
				return nil, err
			}
			hGot = in
			if dirReq {
				return &gt.Message{}, nil
			}
			return sentObj, nil
		}}},
		Streams: []grpc.StreamDesc{{StreamName: "S", ClientStreams: true, ServerStreams: true, Handler: func(srv interface{}, ss grpc.ServerStream) error {
			if dirReq {
				<-hold // the client mutates its message after SendMsg returned
				in := stale()
				if err := ss.RecvMsg(in); err != nil {
					return err
				}
				hGot = in
				return ss.SendMsg(&gt.Message{})
			}
			in := new(gt.Message)
			if err := ss.RecvMsg(in); err != nil && err != io.EOF {
				return err
			}
			if err := ss.SendMsg(sentObj); err != nil {
				return err
			}
			// the handler reuses its response object after the send returned
			mutate(sent)
			return nil
		}}},
	}
	ch := &inprocgrpc.Channel{}
	ch.RegisterService(desc, theImpl)
	if cl != nil {
		ch.WithCloner(cl)
	}
	ctx := context.Background()
	ran := false
	if kind == "unary" {
		resp := stale()
		var req interface{} = &gt.Message{}
		if dirReq {
			req = sentObj
		}
		if err := ch.Invoke(ctx, "/verif.Svc/U", req, resp); err == nil {
			ran = true
			cGot = resp
		}
	} else {
		sd := &grpc.StreamDesc{StreamName: "S", ClientStreams: kind != "sstream", ServerStreams: kind != "cstream"}
		st, err := ch.NewStream(ctx, sd, "/verif.Svc/S")
		if err == nil {
			var req interface{} = &gt.Message{}
			if dirReq {
				req = sentObj
			}
			if err = st.SendMsg(req); err == nil {
				if dirReq {
					// the caller reuses its request object after the send returned
					mutate(sent)
					close(hold)
				}
				st.CloseSend()
				resp := stale()
				if err = st.RecvMsg(resp); err == nil {
					ran = true
					cGot = resp
				}
			}
			runtime.KeepAlive(st)
		}
	}
	out["ran"] = ran
	if !ran {
		return
	}
	var got *gt.Message
	if dirReq {
		got = hGot
	} else {
		got = cGot
	}
	if got == nil {
		out["ran"] = false
		return
	}
	// unary requests / responses are not mutated during the call: compare
	// with the object itself; streams: with the pristine twin
	out["equal"] = proto.Equal(got, orig)
	out["aftersend"] = aftersend && proto.Equal(got, orig)
	out["overwritten"] = proto.Equal(got, orig)
	out["disjoint"] = disjoint(got, sentObj)
}

func clonerCase(c map[string]interface{}) (out map[string]interface{}) {
	out = map[string]interface{}{}
	for k, v := range c {
		out[k] = v
	}
	out["panicked"] = false
	out["err"], out["equal"], out["disjoint"], out["srcsame"] = false, false, true, true
	out["ran"], out["overwritten"], out["aftersend"] = false, true, true
	defer func() {
		if r := recover(); r != nil {
			out["panicked"] = true
			out["text"] = trunc(fmt.Sprint(r), 120)
		}
	}()
	if c["fam"] == "adapter" {
		adapterCase(c, out)
	} else {
		rpcCase(c, out)
	}
	return out
}
