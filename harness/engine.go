package main

import (
	"context"
	"fmt"
	"net"
	"net/http"
	"net/http/httptest"
	"net/url"
	"os"
	"runtime"
	"sort"
	"sync"
	"sync/atomic"
	"time"

	"google.golang.org/grpc"
	"google.golang.org/grpc/credentials/insecure"
	"google.golang.org/grpc/metadata"

	"github.com/fullstorydev/grpchan/httpgrpc"
	"github.com/fullstorydev/grpchan/inprocgrpc"
)

// Engine runs scripts against the real code and records traces.
type Engine struct {
	tr          *Tracer
	self        int64
	epoch       int64 // incremented at the start of every run
	censusEpoch int64 // run whose post-completion census has been taken

	emu sync.Mutex
	ex  map[int64]bool

	httpSrv  *httptest.Server
	httpCh   *httpgrpc.Channel
	memCh    *httpgrpc.Channel
	memTr    *memTransport
	refSrv   *grpc.Server
	refCC    *grpc.ClientConn
	infraErr string
}

func NewEngine() *Engine {
	return &Engine{tr: &Tracer{}, ex: map[int64]bool{}}
}

func (e *Engine) exempt(id int64, on bool) {
	e.emu.Lock()
	if on {
		e.ex[id] = true
	} else {
		delete(e.ex, id)
	}
	e.emu.Unlock()
}

func (e *Engine) exemptCopy() map[int64]bool {
	e.emu.Lock()
	defer e.emu.Unlock()
	m := map[int64]bool{}
	for k := range e.ex {
		m[k] = true
	}
	return m
}

func (e *Engine) channel(sc *Script) grpc.ClientConnInterface {
	switch sc.Tr {
	case "inproc":
		ch := &inprocgrpc.Channel{}
		ch.RegisterService(&vDesc, theImpl)
		if cl := clonerFor(sc); cl != nil {
			ch.WithCloner(cl)
		}
		return ch
	case "http":
		if e.httpSrv == nil {
			s := httpgrpc.NewServer()
			s.RegisterService(&vDesc, theImpl)
			e.httpSrv = httptest.NewServer(s)
			u, _ := url.Parse(e.httpSrv.URL)
			e.httpCh = &httpgrpc.Channel{Transport: &http.Transport{MaxIdleConnsPerHost: 64}, BaseURL: u}
		}
		return e.httpCh
	case "httpmem":
		if e.memCh == nil {
			s := httpgrpc.NewServer()
			s.RegisterService(&vDesc, theImpl)
			e.memTr = &memTransport{h: s}
			u, _ := url.Parse("http://mem.invalid/")
			e.memCh = &httpgrpc.Channel{Transport: e.memTr, BaseURL: u}
		}
		return e.memCh
	case "ref":
		if e.refCC == nil {
			lis, err := net.Listen("tcp", "127.0.0.1:0")
			if err != nil {
				panic(err)
			}
			e.refSrv = grpc.NewServer()
			e.refSrv.RegisterService(&vDesc, theImpl)
			go e.refSrv.Serve(lis)
			cc, err := grpc.Dial(lis.Addr().String(), grpc.WithTransportCredentials(insecure.NewCredentials()), grpc.WithBlock())
			if err != nil {
				panic(err)
			}
			e.refCC = cc
		}
		return e.refCC
	}
	panic("unknown transport " + sc.Tr)
}

func (e *Engine) exact(sc *Script) bool { return sc.Tr == "inproc" || sc.Tr == "httpmem" }

// rest waits for the system to come to rest.
func (e *Engine) rest(sc *Script) bool {
	if e.exact(sc) {
		return quiesce(e.self, 2, 0, 5*time.Second)
	}
	return quiesce(e.self, 8, 300*time.Microsecond, 10*time.Second)
}

func (e *Engine) setupCall(sc *Script, id int, seed int64) *callRun {
	c := newCallRun(e, sc, id, seed)
	c.ch = e.channel(sc)
	base := context.Background()
	if sc.ReqMD {
		md := metadata.Join(c.reqOps[0], metadata.Pairs("vk-call", c.key))
		if seed%2 == 1 {
			// same metadata, attached the other way: part of it given whole,
			// the rest appended pair by pair
			first, kvs := metadata.MD{}, []string{}
			keys := make([]string, 0, len(md))
			for k := range md {
				keys = append(keys, k)
			}
			sort.Strings(keys)
			for i, k := range keys {
				if i%2 == 0 {
					first[k] = md[k]
					continue
				}
				for _, v := range md[k] {
					kvs = append(kvs, k, v)
				}
			}
			base = metadata.AppendToOutgoingContext(metadata.NewOutgoingContext(base, first), kvs...)
		} else {
			base = metadata.NewOutgoingContext(base, md)
		}
	}
	cctx, cancel := context.WithCancel(base)
	c.cancel = cancel
	hasDL := sc.CancelW == "deadline"
	for _, s := range sc.Sched {
		if s == "deadline" {
			hasDL = true
		}
	}
	if hasDL {
		c.dctx = newManualCtx(cctx, true)
		c.ctx = c.dctx
	} else {
		c.ctx = cctx
	}
	theImpl.add(c)
	reqmd := []int{}
	if sc.ReqMD {
		reqmd = []int{1}
	}
	e.tr.Emit(c.id, "Begin", "kind", sc.Kind, "tr", trName(sc.Tr), "reqmd", reqmd, "mode", sc.Mode)
	return c
}

func trName(t string) string {
	if t == "httpmem" {
		return "http"
	}
	return t
}

func (e *Engine) blockedOf(cs []*callRun) (map[int][][]string, int) {
	out := map[int][][]string{}
	n := 0
	for _, c := range cs {
		for _, a := range []*actor{c.cs, c.cs2, c.cr, c.h} {
			if cur, _ := a.cur.Load().(string); cur != "" && cur != "WaitCtx" {
				out[c.id] = append(out[c.id], []string{a.side, cur})
				n++
			}
		}
	}
	return out, n
}

func (e *Engine) noteQuiesce(cs []*callRun) {
	if gates.anyParked() {
		return
	}
	b, n := e.blockedOf(cs)
	if n > 0 {
		e.tr.Emit(0, "Quiesce", "blockedByCall", b)
	}
}

// censusT: once every call of the run has been completed and consumed -- the
// caller holds the final result -- and before the harness itself ends the
// contexts, no goroutine of the library may be left, apart from those that
// are running user code (the handler, the caller's own operations): they have
// a frame of the harness. Goroutines on their way out get 300 ms.
func (e *Engine) censusT(sc *Script, cs []*callRun) {
	if e.censusEpoch == atomic.LoadInt64(&e.epoch) || gates.anyParked() {
		return
	}
	for _, c := range cs {
		if atomic.LoadInt32(&c.term) == 0 {
			return
		}
	}
	if !e.rest(sc) {
		return
	}
	e.censusEpoch = atomic.LoadInt64(&e.epoch)
	var n int
	var tops []string
	for i := 0; i < 60; i++ {
		n, tops = 0, nil
		for _, g := range goroutines() {
			// (a goroutine of net/http -- or of the in-memory transport --
			// parked on the request-body pipe of a finished stream is held
			// by the library as well: only the library can close that pipe)
			if (g.lib || g.pipe) && !g.harn {
				n++
				tops = append(tops, g.top)
			}
		}
		if n == 0 {
			break
		}
		time.Sleep(5 * time.Millisecond)
	}
	for _, c := range cs {
		if n > 0 {
			e.tr.Emit(c.id, "CensusT", "n", n, "tops", tops)
		} else {
			e.tr.Emit(c.id, "CensusT", "n", 0)
		}
	}
}

// releaseCtxWaiters lets handlers that wait for their context give up once the
// system is at rest although the call's context has ended.
func (e *Engine) releaseCtxWaiters(sc *Script, cs []*callRun) {
	for _, c := range cs {
		if cur, _ := c.h.cur.Load().(string); cur == "WaitCtx" && atomic.LoadInt32(&c.cancelled) != 0 {
			// the environment's own delay (the server side noticing that the
			// client has gone) must not count against the library
			if gates.releaseOne("env") {
				e.rest(sc)
				if cur, _ := c.h.cur.Load().(string); cur != "WaitCtx" {
					continue
				}
			}
			select {
			case c.h.release <- struct{}{}:
			default:
			}
			e.rest(sc)
		}
	}
}

// RunSched executes a scheduled script on one call.
func (e *Engine) RunSched(sc *Script) []Ev {
	e.self = myGoid()
	atomic.AddInt64(&e.epoch, 1)
	e.tr.Take()
	if len(sc.Gates) > 0 {
		gates.enable(sc.Gates)
	}
	c := e.setupCall(sc, 1, sc.Seed)
	cs := []*callRun{c}
	go c.clientLoop(c.cs)
	go c.clientLoop(c.cs2)
	go c.clientLoop(c.cr)
	if sc.Kind != "unary" {
		c.openStream()
	}
	if !e.rest(sc) {
		e.infraErr = "no quiescence after start: " + sc.ID
	}
	step := func(who string) {
		switch who {
		case "cancel", "deadline":
			if who == "deadline" && c.dctx == nil {
				who = "cancel"
			}
			c.doCancel(who)
		case "srv", "cli":
			if !gates.releaseOne(who) {
				return
			}
		case "g:snd", "g:cls", "g:rcv", "g:rd", "g:wat", "g:hsv", "g:cpy", "g:cln", "g:env":
			if !gates.releaseOne(who[2:]) {
				return
			}
		case "gc":
			// two collections: the first queues finalizers, which run on
			// the finalizer goroutine
			runtime.GC()
			runtime.GC()
		default:
			var a *actor
			switch who {
			case "cs":
				a = c.cs
			case "cs2":
				a = c.cs2
			case "cr":
				a = c.cr
			case "h":
				a = c.h
			}
			if a == nil || a.isBusy() || a.next >= len(a.ops) && who != "h" {
				return
			}
			if who == "h" && atomic.LoadInt32(&c.hDone) != 0 {
				return
			}
			atomic.StoreInt32(&a.busy, 1)
			a.cmd <- "op"
		}
		if !e.rest(sc) {
			e.infraErr = "no quiescence in " + sc.ID
		}
		e.releaseCtxWaiters(sc, cs)
		e.noteQuiesce(cs)
		// the first point of rest at which the caller holds the final result
		e.censusT(sc, cs)
	}
	for _, who := range sc.Sched {
		step(who)
	}
	e.winddown(sc, cs)
	return e.finishRun(sc, cs)
}

// winddown ends the experiment: the context is cancelled (if it was not), the
// handler is told to return, every actor must come home.
func (e *Engine) winddown(sc *Script, cs []*callRun) {
	if len(sc.Gates) > 0 {
		// open the gates: from here on the code runs freely
		gates.disable()
		e.rest(sc)
		e.noteQuiesce(cs)
	}
	e.censusT(sc, cs)
	for _, c := range cs {
		e.tr.Emit(c.id, "Winddown")
		c.doCancel("cancel")
	}
	e.rest(sc)
	e.releaseCtxWaiters(sc, cs)
	e.noteQuiesce(cs)
	for _, c := range cs {
		select {
		case <-c.hStarted:
			if atomic.LoadInt32(&c.hDone) == 0 && !c.h.isBusy() {
				atomic.StoreInt32(&c.h.busy, 1)
				c.h.cmd <- "fin"
			}
		default:
		}
		for _, a := range []*actor{c.cs, c.cs2, c.cr} {
			if !a.isBusy() {
				a.cmd <- "fin"
			}
		}
	}
	e.rest(sc)
	e.noteQuiesce(cs)
}

func (e *Engine) finishRun(sc *Script, cs []*callRun) []Ev {
	stuck := false
	for _, c := range cs {
		for _, a := range []*actor{c.cs, c.cs2, c.cr, c.h} {
			if cur, _ := a.cur.Load().(string); cur != "" {
				stuck = true
			}
		}
	}
	if !stuck {
		// goroutine census: nothing of the library may be left once the
		// calls are over; goroutines get up to 2 s to exit. Nothing is
		// exempt here: a handler that has not returned keeps the run open.
		var n int
		var tops []string
		for i := 0; i < 230; i++ {
			n, tops = libGoroutines(nil)
			if n == 0 {
				break
			}
			if i < 100 {
				time.Sleep(50 * time.Microsecond)
			} else {
				time.Sleep(15 * time.Millisecond)
			}
		}
		for _, c := range cs {
			if n > 0 {
				e.tr.Emit(c.id, "Census", "n", n, "tops", tops)
			} else {
				e.tr.Emit(c.id, "Census", "n", 0)
			}
		}
		if n > 0 {
			stuck = true
		}
	}
	for _, c := range cs {
		e.tr.Emit(c.id, "End")
		theImpl.remove(c)
		c.keep = append(c.keep, c.stream)
	}
	evs := e.tr.Take()
	atomic.AddInt64(&e.epoch, 1)
	if stuck {
		// goroutines are parked inside the library for good; this process
		// can not be trusted for further runs
		e.infraErr = "stuck after " + sc.ID
	}
	return evs
}

// RunFree executes a free-running script on Calls concurrent calls.
func (e *Engine) RunFree(sc *Script) []Ev {
	e.self = myGoid()
	atomic.AddInt64(&e.epoch, 1)
	e.tr.Take()
	n := sc.Calls
	if n < 1 {
		n = 1
	}
	var cs []*callRun
	for i := 1; i <= n; i++ {
		cs = append(cs, e.setupCall(sc, i, sc.Seed+int64(i)*7919))
	}
	if sc.Slow && e.memTr != nil && sc.Tr == "httpmem" {
		atomic.StoreInt64(&e.memTr.slow, sc.Seed|1)
		defer atomic.StoreInt64(&e.memTr.slow, 0)
	}
	var wg sync.WaitGroup
	if sc.Chain && sc.Kind == "unary" {
		// one call after the other, each started as soon as the one before
		// has returned to its caller (whatever it left running behind it)
		wg.Add(1)
		go func() {
			defer wg.Done()
			for _, c := range cs {
				go c.clientLoop(c.cs)
				go c.clientLoop(c.cs2)
				c.clientLoop(c.cr)
				<-c.cs.exited
				<-c.cs2.exited
			}
		}()
	}
	for _, c := range cs {
		if sc.Chain && sc.Kind == "unary" {
			break
		}
		c := c
		wg.Add(1)
		go func() {
			defer wg.Done()
			if sc.Kind != "unary" {
				c.openStream()
			}
			go c.clientLoop(c.cs)
			go c.clientLoop(c.cs2)
			go c.clientLoop(c.cr)
			<-c.cs.exited
			<-c.cs2.exited
			<-c.cr.exited
		}()
	}
	done := make(chan struct{})
	go func() { wg.Wait(); close(done) }()
	select {
	case <-done:
	case <-time.After(20 * time.Second):
		// at rest with operations pending: let the specification judge
		e.rest(sc)
		e.noteQuiesce(cs)
		fmt.Fprintf(os.Stderr, "free run %s did not finish\n", sc.ID)
		if os.Getenv("VERIF_DUMP_STUCK") != "" {
			buf := make([]byte, 1<<20)
			os.Stderr.Write(buf[:runtime.Stack(buf, true)])
		}
	}
	e.censusT(sc, cs)
	for _, c := range cs {
		e.tr.Emit(c.id, "Winddown")
		c.doCancel("cancel")
	}
	// wait for handlers that were started to return
	for _, c := range cs {
		select {
		case <-c.hStarted:
			select {
			case <-c.h.exited:
			case <-time.After(10 * time.Second):
			}
		default:
		}
	}
	return e.finishRun(sc, cs)
}

func (e *Engine) Close() {
	if e.httpSrv != nil {
		e.httpSrv.Close()
	}
	if e.refCC != nil {
		e.refCC.Close()
		e.refSrv.Stop()
	}
}
