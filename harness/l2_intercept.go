package main

import (
	"context"
	"fmt"
	"io"
	"net"
	"net/url"
	"reflect"
	"runtime"
	"strings"
	"sync"

	"google.golang.org/grpc"
	"google.golang.org/grpc/codes"
	"google.golang.org/grpc/credentials/insecure"
	"google.golang.org/grpc/metadata"
	"google.golang.org/grpc/status"

	"github.com/fullstorydev/grpchan"
	gt "github.com/fullstorydev/grpchan/grpchantesting"
	"github.com/fullstorydev/grpchan/httpgrpc"
	"github.com/fullstorydev/grpchan/inprocgrpc"
)

// C16 / C17: server and client interceptors.

func init() { caseKinds["intercept"] = interceptCase }

type icLog struct {
	mu      sync.Mutex
	word    []string
	seen    [][]string // per entered element: marks found in its context
	seenReq [][]string // ... in the request (server, unary) / among the call options (client)
	infoOK  bool
	ccOK    bool
	argsOK  bool
}

func (l *icLog) enter(n string) { l.enterSeen(n, nil, nil) }

// enterSeen logs that element n was entered and which marks of rewriting
// interceptors it found on the way in. seenReq == nil: not observable there.
func (l *icLog) enterSeen(n string, seen, seenReq []string) {
	l.mu.Lock()
	l.word = append(l.word, n)
	if !strings.HasSuffix(n, "o") {
		l.seen = append(l.seen, append([]string{}, seen...))
		if seenReq != nil {
			l.seenReq = append(l.seenReq, append([]string{}, seenReq...))
		}
	}
	l.mu.Unlock()
}

type icMarkKey struct{}

func ctxMarks(ctx context.Context) []string {
	m, _ := ctx.Value(icMarkKey{}).([]string)
	return append([]string{}, m...)
}

func withCtxMark(ctx context.Context, name string) context.Context {
	return context.WithValue(ctx, icMarkKey{}, append(ctxMarks(ctx), ">"+name))
}

// marks carried by a request message: the ">X" tokens of its payload
func reqMarks(req interface{}) []string {
	out := []string{}
	if m, ok := req.(*gt.Message); ok && m != nil {
		for _, t := range tokens(string(m.Payload)) {
			if strings.HasPrefix(t, ">") {
				out = append(out, t)
			}
		}
	}
	return out
}

func withReqMark(req interface{}, name string) interface{} {
	p := ""
	if m, ok := req.(*gt.Message); ok && m != nil {
		p = string(m.Payload)
	}
	if p != "" {
		p += "|"
	}
	return &gt.Message{Payload: []byte(p + ">" + name)}
}

type ctxServerStream struct {
	grpc.ServerStream
	ctx context.Context
}

func (s *ctxServerStream) Context() context.Context { return s.ctx }
func (l *icLog) bad(what string) {
	l.mu.Lock()
	switch what {
	case "info":
		l.infoOK = false
	case "cc":
		l.ccOK = false
	case "args":
		l.argsOK = false
	}
	l.mu.Unlock()
}

type icIface interface{ isIC() }
type icImpl struct{ log *icLog }

func (*icImpl) isIC() {}

func markResult(resp interface{}, err error, name string) (interface{}, error) {
	if err != nil {
		s := status.Convert(err)
		return nil, status.Error(s.Code(), s.Message()+"|+"+name)
	}
	m := resp.(*gt.Message)
	return &gt.Message{Payload: []byte(string(m.Payload) + "|+" + name)}, nil
}

func tokens(s string) []string {
	if s == "" {
		return []string{}
	}
	return strings.Split(s, "|")
}

// ---- server side

const icSvc = "pkg.IC"

func icDesc() *grpc.ServiceDesc {
	mk := func(name string) grpc.MethodDesc {
		return grpc.MethodDesc{MethodName: name, Handler: func(srv interface{}, ctx context.Context, dec func(interface{}) error, ic grpc.UnaryServerInterceptor) (interface{}, error) {
			in := new(gt.Message)
			if err := dec(in); err != nil {
				return nil, err
			}
			h := func(ctx context.Context, req interface{}) (interface{}, error) {
				srv.(*icImpl).log.enterSeen("H", ctxMarks(ctx), reqMarks(req))
				return &gt.Message{Payload: []byte("h")}, nil
			}
			if ic == nil {
				return h(ctx, in)
			}
			return ic(ctx, in, &grpc.UnaryServerInfo{Server: srv, FullMethod: "/" + icSvc + "/" + name}, h)
		}}
	}
	mks := func(name string, cs, ss bool) grpc.StreamDesc {
		return grpc.StreamDesc{StreamName: name, ClientStreams: cs, ServerStreams: ss, Handler: func(srv interface{}, st grpc.ServerStream) error {
			m := ctxMarks(st.Context())
			srv.(*icImpl).log.enterSeen("H", m, m)
			return st.SendMsg(&gt.Message{Payload: []byte("h")})
		}}
	}
	return &grpc.ServiceDesc{ServiceName: icSvc, HandlerType: (*icIface)(nil),
		Methods:  []grpc.MethodDesc{mk("U1"), mk("U2"), mk("U3")},
		Streams:  []grpc.StreamDesc{mks("S1", true, false), mks("S2", false, true), mks("S3", true, true)},
		Metadata: "ic.proto"}
}

type descSnap struct {
	name    string
	methods []string
	mptr    []uintptr
	streams []string
	sptr    []uintptr
	flags   []bool
	meta    interface{}
	htype   interface{}
}

func snapDesc(d *grpc.ServiceDesc) descSnap {
	s := descSnap{name: d.ServiceName, meta: d.Metadata, htype: d.HandlerType}
	for _, m := range d.Methods {
		s.methods = append(s.methods, m.MethodName)
		s.mptr = append(s.mptr, reflect.ValueOf(m.Handler).Pointer())
	}
	for _, m := range d.Streams {
		s.streams = append(s.streams, m.StreamName)
		s.sptr = append(s.sptr, reflect.ValueOf(m.Handler).Pointer())
		s.flags = append(s.flags, m.ClientStreams, m.ServerStreams)
	}
	return s
}

func srvUnaryInt(name, beh string, log *icLog, method string, impl interface{}) grpc.UnaryServerInterceptor {
	if beh == "nil" {
		return nil
	}
	return func(ctx context.Context, req interface{}, info *grpc.UnaryServerInfo, handler grpc.UnaryHandler) (interface{}, error) {
		log.enterSeen(name, ctxMarks(ctx), reqMarks(req))
		if info == nil || info.FullMethod != method || info.Server != impl {
			log.bad("info")
		}
		switch beh {
		case "pass":
			return handler(ctx, req)
		case "short":
			return &gt.Message{Payload: []byte("s:" + name)}, nil
		case "fail":
			return nil, status.Error(codes.Aborted, "f:"+name)
		default:
			// onward with a derived context and a replaced request
			resp, err := handler(withCtxMark(ctx, name), withReqMark(req, name))
			return markResult(resp, err, name)
		}
	}
}

func srvStreamInt(name, beh string, log *icLog, method string, cs, ss bool, impl interface{}) grpc.StreamServerInterceptor {
	if beh == "nil" {
		return nil
	}
	return func(srv interface{}, st grpc.ServerStream, info *grpc.StreamServerInfo, handler grpc.StreamHandler) error {
		m := ctxMarks(st.Context())
		log.enterSeen(name, m, m)
		if info == nil || info.FullMethod != method || info.IsClientStream != cs || info.IsServerStream != ss || srv != impl {
			log.bad("info")
		}
		switch beh {
		case "pass":
			return handler(srv, st)
		case "short":
			return st.SendMsg(&gt.Message{Payload: []byte("s:" + name)})
		case "fail":
			return status.Error(codes.Aborted, "f:"+name)
		default:
			// onward with a stream whose context is derived
			err := handler(srv, &ctxServerStream{ServerStream: st, ctx: withCtxMark(st.Context(), name)})
			if err != nil {
				s := status.Convert(err)
				return status.Error(s.Code(), s.Message()+"|+"+name)
			}
			return st.SendMsg(&gt.Message{Payload: []byte("+" + name)})
		}
	}
}

type fakeServerStream struct {
	ctx  context.Context
	sent []string
}

func (f *fakeServerStream) SetHeader(metadata.MD) error  { return nil }
func (f *fakeServerStream) SendHeader(metadata.MD) error { return nil }
func (f *fakeServerStream) SetTrailer(metadata.MD)       {}
func (f *fakeServerStream) Context() context.Context     { return f.ctx }
func (f *fakeServerStream) SendMsg(m interface{}) error {
	f.sent = append(f.sent, string(m.(*gt.Message).Payload))
	return nil
}
func (f *fakeServerStream) RecvMsg(m interface{}) error { return io.EOF }

func sameRegistrar(a, b grpc.ServiceRegistrar) bool {
	va, vb := reflect.ValueOf(a), reflect.ValueOf(b)
	if va.Type() != vb.Type() {
		return false
	}
	switch va.Kind() {
	case reflect.Map, reflect.Ptr:
		return va.Pointer() == vb.Pointer()
	}
	return false
}

func strs(v interface{}) []string {
	var out []string
	for _, x := range v.([]interface{}) {
		out = append(out, x.(string))
	}
	return out
}

func collectStream(st grpc.ClientStream, err error) []string {
	res := []string{}
	if err == nil {
		st.CloseSend()
		for i := 0; i < 10; i++ {
			m := new(gt.Message)
			err = st.RecvMsg(m)
			if err != nil {
				break
			}
			res = append(res, string(m.Payload))
		}
		runtime.KeepAlive(st)
	}
	if err != nil && err != io.EOF {
		res = append(res, tokens(status.Convert(err).Message())...)
	}
	return res
}

func serverCase(c, out map[string]interface{}) {
	log := &icLog{infoOK: true, ccOK: true, argsOK: true}
	impl := &icImpl{log: log}
	orig := icDesc()
	before := snapDesc(orig)
	kind := c["kind"].(string)
	other := c["other"].(bool)
	layers := strs(c["layers"])
	target := int(c["target"].(float64))
	sname := fmt.Sprintf("S%d", target)
	method := fmt.Sprintf("/%s/U%d", icSvc, target)
	if kind == "stream" {
		method = "/" + icSvc + "/" + sname
	}
	wantCS, wantSS := target != 2, target != 1
	mkLayer := func(i int) (grpc.UnaryServerInterceptor, grpc.StreamServerInterceptor) {
		name := fmt.Sprintf("L%d", i+1)
		var u grpc.UnaryServerInterceptor
		var s grpc.StreamServerInterceptor
		if kind == "unary" {
			u = srvUnaryInt(name, layers[i], log, method, impl)
			if other {
				s = srvStreamInt(name+"o", "pass", log, "", false, false, impl)
			}
		} else {
			s = srvStreamInt(name, layers[i], log, method, wantCS, wantSS, impl)
			if other {
				u = srvUnaryInt(name+"o", "pass", log, "", impl)
			}
		}
		return u, s
	}
	sameptr := true
	t := c["t"].(string)
	var tu grpc.UnaryServerInterceptor
	var ts grpc.StreamServerInterceptor
	if kind == "unary" {
		tu = srvUnaryInt("T", t, log, method, impl)
	} else {
		ts = srvStreamInt("T", t, log, method, wantCS, wantSS, impl)
	}
	// the carrier
	var base grpc.ServiceRegistrar
	var hm grpchan.HandlerMap
	var ch grpc.ClientConnInterface
	switch c["carrier"] {
	case "registry":
		hm = grpchan.HandlerMap{}
		base = hm
	case "inproc":
		ic := &inprocgrpc.Channel{}
		ic.WithServerUnaryInterceptor(tu).WithServerStreamInterceptor(ts)
		base, ch = ic, ic
	default:
		s := httpgrpc.NewServer(httpgrpc.WithServerUnaryInterceptor(tu), httpgrpc.WithServerStreamInterceptor(ts))
		u, _ := url.Parse("http://mem.invalid/")
		base, ch = s, &httpgrpc.Channel{Transport: &memTransport{h: s}, BaseURL: u}
	}
	// the decoration
	var decorated *grpc.ServiceDesc
	if c["via"] == "InterceptServer" {
		d := orig
		for i := range layers {
			u, s := mkLayer(i)
			nd := grpchan.InterceptServer(d, u, s)
			if u == nil && s == nil && nd != d {
				sameptr = false
			}
			d = nd
		}
		decorated = d
		base.RegisterService(d, impl)
	} else {
		reg := base
		for i := range layers {
			u, s := mkLayer(i)
			nr := grpchan.WithInterceptor(reg, u, s)
			if u == nil && s == nil && !sameRegistrar(nr, reg) {
				sameptr = false
			}
			reg = nr
		}
		reg.RegisterService(orig, impl)
	}
	// the call
	var result []string
	if c["carrier"] == "registry" {
		d, h := hm.QueryService(icSvc)
		if kind == "unary" {
			dec := func(m interface{}) error { return nil }
			resp, err := d.Methods[target-1].Handler(h, context.Background(), dec, tu)
			if err != nil {
				result = tokens(status.Convert(err).Message())
			} else {
				result = tokens(string(resp.(*gt.Message).Payload))
			}
		} else {
			fs := &fakeServerStream{ctx: context.Background()}
			err := d.Streams[target-1].Handler(h, fs)
			result = append([]string{}, fs.sent...)
			if err != nil {
				result = append(result, tokens(status.Convert(err).Message())...)
			}
		}
	} else if kind == "unary" {
		resp := new(gt.Message)
		err := ch.Invoke(context.Background(), method, &gt.Message{}, resp)
		if err != nil {
			result = tokens(status.Convert(err).Message())
		} else {
			result = tokens(string(resp.Payload))
		}
	} else {
		// (the client side always treats the method as bidi so that the marker
		// messages of the instrumented interceptors can be collected; the
		// flags the interceptors are told come from the registered description)
		st, err := ch.NewStream(context.Background(), &grpc.StreamDesc{StreamName: sname, ClientStreams: true, ServerStreams: true}, method)
		result = collectStream(st, err)
	}
	log.mu.Lock()
	word := append([]string{}, log.word...)
	out["infook"] = log.infoOK
	out["seen"], out["seenreq"] = seqs(log.seen), seqs(log.seenReq)
	log.mu.Unlock()
	if t2, ok := c["t2"].(string); ok {
		// the same decorated description once more, through a carrier with
		// another transport-level interceptor
		log.mu.Lock()
		log.word = nil
		log.mu.Unlock()
		var tu2 grpc.UnaryServerInterceptor
		var ts2 grpc.StreamServerInterceptor
		if kind == "unary" {
			tu2 = srvUnaryInt("T2", t2, log, method, impl)
		} else {
			ts2 = srvStreamInt("T2", t2, log, method, wantCS, wantSS, impl)
		}
		var result2 []string
		if c["carrier"] == "registry" {
			d, h := hm.QueryService(icSvc)
			if kind == "unary" {
				dec := func(m interface{}) error { return nil }
				resp, err := d.Methods[target-1].Handler(h, context.Background(), dec, tu2)
				if err != nil {
					result2 = tokens(status.Convert(err).Message())
				} else {
					result2 = tokens(string(resp.(*gt.Message).Payload))
				}
			} else {
				fs := &fakeServerStream{ctx: context.Background()}
				err := d.Streams[target-1].Handler(h, fs)
				result2 = append([]string{}, fs.sent...)
				if err != nil {
					result2 = append(result2, tokens(status.Convert(err).Message())...)
				}
			}
		} else {
			ic2 := &inprocgrpc.Channel{}
			ic2.WithServerUnaryInterceptor(tu2).WithServerStreamInterceptor(ts2)
			ic2.RegisterService(decorated, impl)
			if kind == "unary" {
				resp := new(gt.Message)
				err := ic2.Invoke(context.Background(), method, &gt.Message{}, resp)
				if err != nil {
					result2 = tokens(status.Convert(err).Message())
				} else {
					result2 = tokens(string(resp.Payload))
				}
			} else {
				st, err := ic2.NewStream(context.Background(), &grpc.StreamDesc{StreamName: sname, ClientStreams: true, ServerStreams: true}, method)
				result2 = collectStream(st, err)
			}
		}
		log.mu.Lock()
		out["word2"], out["result2"] = append([]string{}, log.word...), result2
		log.mu.Unlock()
	}
	// "other kind" interceptors must never run for this call
	for _, w := range word {
		if strings.HasSuffix(w, "o") {
			out["infook"] = false
		}
	}
	out["word"], out["result"] = word, result
	out["descsame"] = reflect.DeepEqual(before, snapDesc(orig))
	out["sameptr"] = sameptr
}

// ---- client side

var icRef struct {
	once sync.Once
	cc   *grpc.ClientConn
	impl *icImpl
}

type cliBaseImpl struct {
	mu  sync.Mutex
	log *icLog
}

func (*cliBaseImpl) isIC() {}

// the service behind every base channel: logs "H", checks what arrived
func cliDesc() *grpc.ServiceDesc {
	check := func(srv interface{}, ctx context.Context, payload string) *icLog {
		b := srv.(*cliBaseImpl)
		b.mu.Lock()
		l := b.log
		b.mu.Unlock()
		if l == nil {
			return nil
		}
		md, _ := metadata.FromIncomingContext(ctx)
		l.enterSeen("H", md.Get("ic-mark"), nil)
		if payload != "req-payload" || len(md.Get("arg-key")) != 1 || md.Get("arg-key")[0] != "arg-val" {
			l.bad("args")
		}
		return l
	}
	return &grpc.ServiceDesc{ServiceName: icSvc, HandlerType: (*icIface)(nil),
		Methods: []grpc.MethodDesc{{MethodName: "U2", Handler: func(srv interface{}, ctx context.Context, dec func(interface{}) error, _ grpc.UnaryServerInterceptor) (interface{}, error) {
			in := new(gt.Message)
			if err := dec(in); err != nil {
				return nil, err
			}
			check(srv, ctx, string(in.Payload))
			grpc.SetHeader(ctx, metadata.Pairs("opt-seen", "yes"))
			return &gt.Message{Payload: []byte("h")}, nil
		}}},
		Streams: []grpc.StreamDesc{{StreamName: "S2", ClientStreams: true, ServerStreams: true, Handler: func(srv interface{}, st grpc.ServerStream) error {
			in := new(gt.Message)
			if err := st.RecvMsg(in); err != nil {
				return err
			}
			check(srv, st.Context(), string(in.Payload))
			st.SetHeader(metadata.Pairs("opt-seen", "yes"))
			return st.SendMsg(&gt.Message{Payload: []byte("h")})
		}}},
	}
}

var cliBase = &cliBaseImpl{}

type shortStream struct {
	ctx  context.Context
	msgs []string
	pos  int
}

func (s *shortStream) Header() (metadata.MD, error) { return nil, nil }
func (s *shortStream) Trailer() metadata.MD         { return nil }
func (s *shortStream) CloseSend() error             { return nil }
func (s *shortStream) Context() context.Context     { return s.ctx }
func (s *shortStream) SendMsg(interface{}) error    { return nil }
func (s *shortStream) RecvMsg(m interface{}) error {
	if s.pos >= len(s.msgs) {
		return io.EOF
	}
	m.(*gt.Message).Reset()
	m.(*gt.Message).Payload = []byte(s.msgs[s.pos])
	s.pos++
	return nil
}

type markStream struct {
	grpc.ClientStream
	name string
	done bool
}

func (s *markStream) RecvMsg(m interface{}) error {
	if s.done {
		return io.EOF
	}
	err := s.ClientStream.RecvMsg(m)
	if err == io.EOF {
		s.done = true
		m.(*gt.Message).Reset()
		m.(*gt.Message).Payload = []byte("+" + s.name)
		return nil
	}
	if err != nil {
		st := status.Convert(err)
		return status.Error(st.Code(), st.Message()+"|+"+s.name)
	}
	return nil
}

func cliUnaryInt(name, beh string, log *icLog, wantCC *grpc.ClientConn) grpc.UnaryClientInterceptor {
	if beh == "nil" {
		return nil
	}
	return func(ctx context.Context, method string, req, reply interface{}, cc *grpc.ClientConn, invoker grpc.UnaryInvoker, opts ...grpc.CallOption) error {
		log.enterSeen(name, mdMarks(ctx), optMarks(opts))
		if cc != wantCC {
			log.bad("cc")
		}
		switch beh {
		case "pass":
			return invoker(ctx, method, req, reply, cc, opts...)
		case "short":
			reply.(*gt.Message).Payload = []byte("s:" + name)
			return nil
		case "fail":
			return status.Error(codes.Aborted, "f:"+name)
		default:
			// onward with more outgoing metadata and two more call options:
			// a marker, and a grpc.Header option whose effect shows whether
			// the options reached the channel that performs the call
			var own metadata.MD
			opts2 := append(append([]grpc.CallOption{}, opts...), markOpt{name: name}, grpc.Header(&own))
			err := invoker(metadata.AppendToOutgoingContext(ctx, "ic-mark", ">"+name), method, req, reply, cc, opts2...)
			if err == nil && len(own.Get("opt-seen")) == 0 && string(reply.(*gt.Message).Payload) == "h" {
				log.bad("args")
			}
			if err != nil {
				st := status.Convert(err)
				return status.Error(st.Code(), st.Message()+"|+"+name)
			}
			r := reply.(*gt.Message)
			r.Payload = []byte(string(r.Payload) + "|+" + name)
			return nil
		}
	}
}

func cliStreamInt(name, beh string, log *icLog, wantCC *grpc.ClientConn) grpc.StreamClientInterceptor {
	if beh == "nil" {
		return nil
	}
	return func(ctx context.Context, desc *grpc.StreamDesc, cc *grpc.ClientConn, method string, streamer grpc.Streamer, opts ...grpc.CallOption) (grpc.ClientStream, error) {
		log.enterSeen(name, mdMarks(ctx), optMarks(opts))
		if cc != wantCC {
			log.bad("cc")
		}
		switch beh {
		case "pass":
			return streamer(ctx, desc, cc, method, opts...)
		case "short":
			return &shortStream{ctx: ctx, msgs: []string{"s:" + name}}, nil
		case "fail":
			return nil, status.Error(codes.Aborted, "f:"+name)
		default:
			opts2 := append(append([]grpc.CallOption{}, opts...), markOpt{name: name})
			st, err := streamer(metadata.AppendToOutgoingContext(ctx, "ic-mark", ">"+name), desc, cc, method, opts2...)
			if err != nil {
				s := status.Convert(err)
				return nil, status.Error(s.Code(), s.Message()+"|+"+name)
			}
			return &markStream{ClientStream: st, name: name}, nil
		}
	}
}

func clientCase(c, out map[string]interface{}) {
	log := &icLog{infoOK: true, ccOK: true, argsOK: true}
	cliBase.mu.Lock()
	cliBase.log = log
	cliBase.mu.Unlock()
	defer func() {
		cliBase.mu.Lock()
		cliBase.log = nil
		cliBase.mu.Unlock()
	}()
	var base grpc.ClientConnInterface
	var wantCC *grpc.ClientConn
	switch c["base"] {
	case "grpc":
		icRef.once.Do(func() {
			lis, err := net.Listen("tcp", "127.0.0.1:0")
			if err != nil {
				panic(err)
			}
			s := grpc.NewServer()
			s.RegisterService(cliDesc(), cliBase)
			go s.Serve(lis)
			cc, err := grpc.Dial(lis.Addr().String(), grpc.WithTransportCredentials(insecure.NewCredentials()), grpc.WithBlock())
			if err != nil {
				panic(err)
			}
			icRef.cc = cc
		})
		base, wantCC = icRef.cc, icRef.cc
	case "inproc":
		ic := &inprocgrpc.Channel{}
		ic.RegisterService(cliDesc(), cliBase)
		base = ic
	default:
		s := httpgrpc.NewServer()
		s.RegisterService(cliDesc(), cliBase)
		u, _ := url.Parse("http://mem.invalid/")
		base = &httpgrpc.Channel{Transport: &memTransport{h: s}, BaseURL: u}
	}
	kind := c["kind"].(string)
	ch := base
	unwrapok := true
	for i, li := range c["layers"].([]interface{}) {
		l := strs(li)
		name := fmt.Sprintf("L%d", i+1)
		u := cliUnaryInt(name, l[0], log, wantCC)
		s := cliStreamInt(name, l[1], log, wantCC)
		w := grpchan.InterceptClientConn(ch, u, s)
		if u == nil && s == nil {
			if w != ch {
				unwrapok = false
			}
		} else {
			wc, ok := w.(grpchan.WrappedClientConn)
			if !ok || wc.Unwrap() != ch {
				unwrapok = false
			}
		}
		ch = w
	}
	ctx := metadata.NewOutgoingContext(context.Background(), metadata.Pairs("arg-key", "arg-val"))
	var result []string
	var hdr metadata.MD
	method := "/" + icSvc + "/U2"
	if kind == "unary" {
		resp := new(gt.Message)
		err := ch.Invoke(ctx, method, &gt.Message{Payload: []byte("req-payload")}, resp, grpc.Header(&hdr))
		if err != nil {
			result = tokens(status.Convert(err).Message())
		} else {
			result = tokens(string(resp.Payload))
		}
	} else {
		method = "/" + icSvc + "/S2"
		st, err := ch.NewStream(ctx, &grpc.StreamDesc{StreamName: "S2", ClientStreams: true, ServerStreams: true}, method, grpc.Header(&hdr))
		if err == nil {
			if e := st.SendMsg(&gt.Message{Payload: []byte("req-payload")}); e != nil {
				err = e
			}
		}
		result = collectStream(st, err)
	}
	log.mu.Lock()
	word := append([]string{}, log.word...)
	reached := false
	for _, w := range word {
		if w == "H" {
			reached = true
		}
	}
	out["ccok"] = log.ccOK
	argsok := log.argsOK
	log.mu.Unlock()
	if reached && len(hdr.Get("opt-seen")) == 0 {
		// the grpc.Header call option did not reach the base channel
		argsok = false
	}
	out["word"], out["result"], out["argsok"], out["unwrapok"] = word, result, argsok, unwrapok
	log.mu.Lock()
	out["seen"], out["seenopt"] = seqs(log.seen), seqs(log.seenReq)
	log.mu.Unlock()
}

// markOpt is a call option without effect that rewriting client interceptors add
type markOpt struct {
	grpc.EmptyCallOption
	name string
}

func optMarks(opts []grpc.CallOption) []string {
	out := []string{}
	for _, o := range opts {
		if m, ok := o.(markOpt); ok {
			out = append(out, ">"+m.name)
		}
	}
	return out
}

func mdMarks(ctx context.Context) []string {
	md, _ := metadata.FromOutgoingContext(ctx)
	return append([]string{}, md.Get("ic-mark")...)
}

func seqs(v [][]string) [][]string {
	out := [][]string{}
	for _, x := range v {
		out = append(out, append([]string{}, x...))
	}
	return out
}

func interceptCase(c map[string]interface{}) (out map[string]interface{}) {
	out = map[string]interface{}{}
	for k, v := range c {
		out[k] = v
	}
	out["panicked"] = false
	out["word"], out["result"] = []string{}, []string{}
	out["seen"], out["seenreq"], out["seenopt"] = [][]string{}, [][]string{}, [][]string{}
	out["infook"], out["descsame"], out["sameptr"] = true, true, true
	out["ccok"], out["argsok"], out["unwrapok"] = true, true, true
	defer func() {
		if r := recover(); r != nil {
			out["panicked"] = true
			out["text"] = trunc(fmt.Sprint(r), 120)
		}
	}()
	if c["fam"] == "server" {
		serverCase(c, out)
	} else {
		clientCase(c, out)
	}
	return out
}
