package main

import (
	"context"
	"fmt"
	"math/rand"
	"strconv"
	"sync"
	"sync/atomic"
	"time"

	"github.com/golang/protobuf/proto"
	"google.golang.org/grpc"
	"google.golang.org/grpc/metadata"

	gt "github.com/fullstorydev/grpchan/grpchantesting"
)

// ---------------------------------------------------------------------------
// the scripted service

type vsvc interface{ isVerifSvc() }

type vimpl struct {
	mu    sync.Mutex
	calls map[string]*callRun
	only  *callRun
}

func (*vimpl) isVerifSvc() {}

func (im *vimpl) add(c *callRun) {
	im.mu.Lock()
	defer im.mu.Unlock()
	if im.calls == nil {
		im.calls = map[string]*callRun{}
	}
	im.calls[c.key] = c
	im.only = c
}

func (im *vimpl) remove(c *callRun) {
	im.mu.Lock()
	defer im.mu.Unlock()
	delete(im.calls, c.key)
	if im.only == c {
		im.only = nil
	}
}

func (im *vimpl) lookup(ctx context.Context) *callRun {
	im.mu.Lock()
	defer im.mu.Unlock()
	if md, ok := metadata.FromIncomingContext(ctx); ok {
		if v := md.Get("vk-call"); len(v) > 0 {
			return im.calls[v[0]]
		}
	}
	if im.only != nil && im.only.sc.ReqMD {
		return nil
	}
	return im.only
}

// others returns the response/request tables of the other active calls, for
// cross-talk detection.
func (im *vimpl) others(c *callRun) []*callRun {
	im.mu.Lock()
	defer im.mu.Unlock()
	var out []*callRun
	for _, o := range im.calls {
		if o != c {
			out = append(out, o)
		}
	}
	return out
}

var theImpl = &vimpl{}

func unaryH(srv interface{}, ctx context.Context, dec func(interface{}) error, _ grpc.UnaryServerInterceptor) (interface{}, error) {
	c := srv.(*vimpl).lookup(ctx)
	if c == nil {
		return nil, fmt.Errorf("verifharness: no active call")
	}
	resp, err := c.runHandler(ctx, nil, dec)
	if resp == nil {
		return nil, err
	}
	return resp, err
}

func streamH(srv interface{}, ss grpc.ServerStream) error {
	c := srv.(*vimpl).lookup(ss.Context())
	if c == nil {
		return fmt.Errorf("verifharness: no active call")
	}
	_, err := c.runHandler(ss.Context(), ss, nil)
	return err
}

var vDesc = grpc.ServiceDesc{
	ServiceName: "verif.Svc",
	HandlerType: (*vsvc)(nil),
	Methods:     []grpc.MethodDesc{{MethodName: "U", Handler: unaryH}},
	Streams: []grpc.StreamDesc{
		{StreamName: "CS", Handler: streamH, ClientStreams: true},
		{StreamName: "SS", Handler: streamH, ServerStreams: true},
		{StreamName: "BD", Handler: streamH, ClientStreams: true, ServerStreams: true},
	},
	Metadata: "verif.proto",
}

func streamDescFor(kind string) (*grpc.StreamDesc, string) {
	switch kind {
	case "cstream":
		return &vDesc.Streams[0], "/verif.Svc/CS"
	case "sstream":
		return &vDesc.Streams[1], "/verif.Svc/SS"
	default:
		return &vDesc.Streams[2], "/verif.Svc/BD"
	}
}

// ---------------------------------------------------------------------------
// a context whose deadline "passes" when the harness says so

type manualCtx struct {
	context.Context
	mu    sync.Mutex
	done  chan struct{}
	err   error
	hasDL bool
	dl    time.Time
}

func newManualCtx(parent context.Context, withDeadline bool) *manualCtx {
	c := &manualCtx{Context: parent, done: make(chan struct{}), hasDL: withDeadline, dl: time.Now().Add(time.Hour)}
	go func() {
		select {
		case <-parent.Done():
			c.fire(parent.Err())
		case <-c.done:
		}
	}()
	return c
}

func (c *manualCtx) Deadline() (time.Time, bool) {
	if c.hasDL {
		return c.dl, true
	}
	return c.Context.Deadline()
}
func (c *manualCtx) Done() <-chan struct{} { return c.done }
func (c *manualCtx) Err() error {
	c.mu.Lock()
	defer c.mu.Unlock()
	return c.err
}
func (c *manualCtx) fire(err error) {
	c.mu.Lock()
	defer c.mu.Unlock()
	if c.err == nil {
		c.err = err
		close(c.done)
	}
}

// ---------------------------------------------------------------------------
// actors

type actor struct {
	name    string // cs | cr | h
	side    string // c | h
	ops     []Op
	next    int
	cmd     chan string
	busy    int32
	cur     atomic.Value // string: op name while inside the library
	goid    int64
	exited  chan struct{}
	release chan struct{}
}

func newActor(name, side string, ops []Op) *actor {
	a := &actor{name: name, side: side, ops: ops, cmd: make(chan string, 64), exited: make(chan struct{}), release: make(chan struct{}, 1)}
	a.cur.Store("")
	return a
}

func (a *actor) isBusy() bool { return atomic.LoadInt32(&a.busy) != 0 }

// callRun is the state of one RPC under experiment.
type callRun struct {
	id    int
	epoch int64
	key   string
	sc    *Script
	eng   *Engine
	free  bool

	reqMsgs  []*gt.Message
	respMsgs []*gt.Message
	hdrOps   []metadata.MD
	trlOps   []metadata.MD
	reqOps   []metadata.MD
	sts      []hStatus

	ctx       context.Context
	cancel    context.CancelFunc
	dctx      *manualCtx
	cancelled int32

	ch     grpc.ClientConnInterface
	stream grpc.ClientStream
	sHdr   [2]metadata.MD
	sTrl   [2]metadata.MD

	cs, cs2, cr, h *actor
	hStarted       chan struct{}
	hDone          int32

	lastCRecv int
	lastHRecv int
	gotFirst  bool
	termSeen  bool
	term      int32 // the caller has obtained the final result
	nEvents   int32
	keep      []interface{}
}

func (c *callRun) emit(ev string, kv ...interface{}) {
	if atomic.LoadInt64(&c.eng.epoch) != c.epoch {
		// a straggler of an earlier run (over sockets a handler may start
		// after its call was abandoned): not part of the current trace
		return
	}
	c.eng.tr.Emit(c.id, ev, kv...)
	if ev == "CInvokeRet" || ev == "CRecvRet" {
		// the caller has the call's final result: the call is completed and consumed
		final := ev == "CInvokeRet" || !c.sc.respStream()
		for i := 0; i+1 < len(kv); i += 2 {
			if k, _ := kv[i].(string); k == "res" {
				if m, ok := kv[i+1].(map[string]interface{}); ok && m["k"] != "nil" {
					final = true
				}
			}
		}
		if final {
			atomic.StoreInt32(&c.term, 1)
		}
	}
	if c.free && c.sc.CancelN > 0 {
		if n := atomic.AddInt32(&c.nEvents, 1); int(n) == c.sc.CancelN {
			c.doCancel(c.sc.CancelW)
		}
	}
}

func (c *callRun) doCancel(why string) {
	if !atomic.CompareAndSwapInt32(&c.cancelled, 0, 1) {
		return
	}
	if why == "deadline" {
		if atomic.LoadInt64(&c.eng.epoch) == c.epoch {
			c.eng.tr.Emit(c.id, "Cancel", "why", "deadline")
		}
		c.dctx.fire(context.DeadlineExceeded)
	} else {
		if atomic.LoadInt64(&c.eng.epoch) == c.epoch {
			c.eng.tr.Emit(c.id, "Cancel", "why", "cancel")
		}
		c.cancel()
	}
}

func newCallRun(e *Engine, sc *Script, id int, seed int64) *callRun {
	r := rand.New(rand.NewSource(seed))
	c := &callRun{id: id, epoch: atomic.LoadInt64(&e.epoch), sc: sc, eng: e, free: sc.Mode == "free", key: strconv.Itoa(id) + "-" + strconv.FormatInt(seed, 36), hStarted: make(chan struct{})}
	nreq := count(sc.CS, "Send")
	if sc.Kind == "unary" {
		nreq = 1
	}
	nresp := maxArg(sc.H, "Send")
	if sc.Kind == "unary" {
		nresp = 1
	}
	for i := 1; i <= nreq; i++ {
		c.reqMsgs = append(c.reqMsgs, genMessage(r, sc.MsgCls, i))
	}
	for i := 1; i <= nresp; i++ {
		c.respMsgs = append(c.respMsgs, genMessage(r, sc.MsgCls, 100+i))
	}
	// over HTTP streaming trailers travel in a proto string field: keep -bin
	// trailer values valid UTF-8 there (the other class is a pinned finding)
	binUTF8 := (sc.Tr == "http" || sc.Tr == "httpmem") && sc.Kind != "unary" && sc.TrlBin != "raw"
	for i := 1; i <= sc.NHdr; i++ {
		c.hdrOps = append(c.hdrOps, genMD(r, "h", i, false))
	}
	for i := 1; i <= sc.NTrl; i++ {
		c.trlOps = append(c.trlOps, genMD(r, "t", i, binUTF8))
	}
	if sc.ReqMD {
		c.reqOps = []metadata.MD{genMD(r, "r", 1, false)}
	}
	for _, cls := range sc.StCls {
		c.sts = append(c.sts, genStatus(r, cls))
	}
	c.cs = newActor("cs", "c", sc.CS)
	c.cs2 = newActor("cs2", "c", sc.CS2)
	c.cr = newActor("cr", "c", sc.CR)
	c.h = newActor("h", "h", sc.H)
	return c
}

func (c *callRun) statusRec(i int) map[string]interface{} {
	if i <= 0 || i > len(c.sts) {
		return map[string]interface{}{"st": 0, "code": 0, "ctxerr": false}
	}
	s := c.sts[i-1]
	return map[string]interface{}{"st": i, "code": int(s.Norm.Code()), "ctxerr": s.Ctx}
}

func (c *callRun) internResp(m *gt.Message) int {
	id := internMsg(c.respMsgs, c.lastCRecv, m)
	if id == 0 {
		for _, o := range theImpl.others(c) {
			if internMsg(o.respMsgs, 0, m) != 0 || internMsg(o.reqMsgs, 0, m) != 0 {
				return -1
			}
		}
	} else if id > c.lastCRecv {
		c.lastCRecv = id
	}
	return id
}

func (c *callRun) internReq(m *gt.Message) int {
	id := internMsg(c.reqMsgs, c.lastHRecv, m)
	if id == 0 {
		for _, o := range theImpl.others(c) {
			if internMsg(o.reqMsgs, 0, m) != 0 || internMsg(o.respMsgs, 0, m) != 0 {
				return -1
			}
		}
	} else if id > c.lastHRecv {
		c.lastHRecv = id
	}
	return id
}

// ---------------------------------------------------------------------------
// handler side

type handlerPanic struct{ v interface{} }

func (c *callRun) runHandler(ctx context.Context, ss grpc.ServerStream, dec func(interface{}) error) (resp interface{}, err error) {
	a := c.h
	a.goid = myGoid()
	c.eng.exempt(a.goid, true)
	md, _ := metadata.FromIncomingContext(ctx)
	c.emit("HStart", "md", viewOf(md, c.reqOps))
	close(c.hStarted)
	defer func() {
		atomic.StoreInt32(&c.hDone, 1)
		atomic.StoreInt32(&a.busy, 0)
		c.eng.exempt(a.goid, false)
		close(a.exited)
	}()
	finish := func(st int, nresp int) (interface{}, error) {
		// nresp = 2: "no response" in the shape generated code gives it, a
		// typed nil pointer (return nil, nil in a method returning *Message)
		if c.sc.Chain && c.id%2 == 0 {
			st, nresp = 0, 1
		}
		typedNil := nresp == 2
		if typedNil {
			nresp = 0
		}
		c.emit("HReturn", "st", c.statusRec(st), "nresp", nresp)
		var e error
		if st > 0 && st <= len(c.sts) {
			e = c.sts[st-1].Err
		}
		if nresp == 1 && len(c.respMsgs) > 0 {
			return c.respMsgs[0], e
		}
		if typedNil {
			return (*gt.Message)(nil), e
		}
		return nil, e
	}
	defaultFinish := func() (interface{}, error) {
		// the script ended without a Return: return OK (with the response for unary)
		if c.sc.Kind == "unary" {
			return finish(0, 1)
		}
		return finish(0, 0)
	}
	for {
		if c.free {
			if a.next >= len(a.ops) {
				return defaultFinish()
			}
		} else {
			atomic.StoreInt32(&a.busy, 0)
			cmd := <-a.cmd
			if cmd == "fin" || a.next >= len(a.ops) {
				// look for a scripted Return among the remaining ops
				for _, o := range a.ops[a.next:] {
					if o.Name == "Return" {
						return finish(o.Arg, o.Arg2)
					}
				}
				return defaultFinish()
			}
		}
		op := a.ops[a.next]
		a.next++
		if op.Name == "Return" {
			return finish(op.Arg, op.Arg2)
		}
		c.handlerOp(ctx, ss, dec, op)
	}
}

func (c *callRun) handlerOp(ctx context.Context, ss grpc.ServerStream, dec func(interface{}) error, op Op) {
	a := c.h
	defer func() {
		a.cur.Store("")
		if r := recover(); r != nil {
			c.emit("Panic", "actor", "h", "op", op.Name, "text", trunc(fmt.Sprint(r), 120))
		}
	}()
	unaryish := ss == nil
	switch op.Name {
	case "Recv", "RecvAll":
		// "receive to the end" is bounded: a stream that keeps delivering (a
		// fault the specification reports at the first surplus message) must
		// not keep the harness running
		for n := 0; n < len(c.reqMsgs)+8; n++ {
			m := c.newDest()
			c.emit("HRecvCall")
			a.cur.Store("Recv")
			var err error
			if unaryish {
				err = dec(m)
			} else {
				err = ss.RecvMsg(m)
			}
			a.cur.Store("")
			res := classify(err, c.sts)
			id := 0
			if err == nil {
				id = c.internReq(m)
			}
			c.emit("HRecvRet", "res", res, "msg", id)
			if op.Name == "Recv" || err != nil || unaryish {
				return
			}
		}
	case "Send":
		k := op.Arg
		c.emit("HSendCall", "k", k)
		a.cur.Store("Send")
		var err error
		if unaryish || k > len(c.respMsgs) {
			err = fmt.Errorf("no stream")
		} else {
			// the handler owns its message again once SendMsg has returned
			// and reuses it: that must never be visible to the caller
			own := proto.Clone(c.respMsgs[k-1]).(*gt.Message)
			err = ss.SendMsg(own)
			scribble(own)
		}
		a.cur.Store("")
		c.emit("HSendRet", "k", k, "res", classify(err, c.sts))
	case "SetHeader", "SendHeader":
		i := op.Arg
		var md metadata.MD // operation number 0: empty metadata ("flush the headers")
		if i > 0 {
			md = c.hdrOps[i-1]
		} else if c.sc.Seed%2 == 0 {
			md = metadata.MD{}
		}
		c.emit("H"+op.Name+"Call", "i", i)
		a.cur.Store(op.Name)
		var err error
		switch {
		case op.Name == "SetHeader" && (unaryish || c.sc.ViaCtx):
			err = grpc.SetHeader(ctx, md)
		case op.Name == "SetHeader":
			err = ss.SetHeader(md)
		case unaryish || c.sc.ViaCtx:
			err = grpc.SendHeader(ctx, md)
		default:
			err = ss.SendHeader(md)
		}
		a.cur.Store("")
		c.emit("H"+op.Name+"Ret", "i", i, "ok", err == nil)
	case "SetTrailer":
		i := op.Arg
		md := c.trlOps[i-1]
		a.cur.Store("SetTrailer")
		ok := true
		if unaryish || c.sc.ViaCtx {
			ok = grpc.SetTrailer(ctx, md) == nil
		} else {
			ss.SetTrailer(md)
		}
		a.cur.Store("")
		c.emit("HSetTrailerRet", "i", i, "ok", ok)
	case "WaitCtx":
		a.cur.Store("WaitCtx")
		var tmo <-chan time.Time
		if c.free {
			tmo = time.After(1 * time.Second) // (shorter than the final census waits)
		}
		select {
		case <-ctx.Done():
			a.cur.Store("")
			c.emit("HCtxWait", "done", true)
		case <-a.release:
			a.cur.Store("")
			c.emit("HCtxWait", "done", false)
		case <-tmo:
			a.cur.Store("")
			c.emit("HCtxWait", "done", false)
		}
	}
}

// scribble overwrites a message in place (same backing arrays and maps), the
// way a program reuses a message object.
func scribble(m *gt.Message) {
	for i := range m.Payload {
		m.Payload[i] ^= 0xff
	}
	m.Count = -12345
	m.Code ^= 0x55
	for k, v := range m.Headers {
		for i := range v {
			v[i] ^= 0xff
		}
		m.Headers[k] = v
	}
	if m.Headers != nil {
		m.Headers["scribbled"] = []byte("x")
	}
	if m.Trailers != nil {
		m.Trailers["scribbled"] = []byte("y")
	}
	for _, d := range m.ErrorDetails {
		for i := range d.Value {
			d.Value[i] ^= 0xff
		}
		d.TypeUrl = "scribbled"
	}
	m.Payload = append(m.Payload, 's')
}

// newDest makes a receive destination. It is pre-filled so that a copy that
// merges instead of overwriting shows up as an altered message.
func (c *callRun) newDest() *gt.Message {
	return &gt.Message{Payload: []byte("stale-destination"), Count: -7, Headers: map[string][]byte{"stale": []byte("x")}}
}

// ---------------------------------------------------------------------------
// client side

func (c *callRun) clientLoop(a *actor) {
	a.goid = myGoid()
	c.eng.exempt(a.goid, true)
	defer func() {
		atomic.StoreInt32(&a.busy, 0)
		c.eng.exempt(a.goid, false)
		close(a.exited)
	}()
	for {
		if c.free {
			if a.next >= len(a.ops) {
				return
			}
		} else {
			atomic.StoreInt32(&a.busy, 0)
			cmd := <-a.cmd
			if cmd == "fin" {
				return
			}
			if a.next >= len(a.ops) {
				continue
			}
		}
		op := a.ops[a.next]
		a.next++
		c.clientOp(a, op)
	}
}

func (c *callRun) clientOp(a *actor, op Op) {
	defer func() {
		a.cur.Store("")
		if r := recover(); r != nil {
			c.emit("Panic", "actor", a.name, "op", op.Name, "text", trunc(fmt.Sprint(r), 120))
		}
	}()
	switch op.Name {
	case "Invoke":
		var h1, h2, t1, t2 metadata.MD
		resp := c.newDest()
		c.emit("CInvokeCall")
		a.cur.Store("Invoke")
		own := proto.Clone(c.reqMsgs[0]).(*gt.Message)
		err := c.ch.Invoke(c.ctx, "/verif.Svc/U", own, resp, grpc.Header(&h1), grpc.Trailer(&t1), grpc.Header(&h2), grpc.Trailer(&t2))
		scribble(own) // the caller reuses its request after the call returned
		a.cur.Store("")
		id := 0
		if err == nil {
			id = c.internResp(resp)
		}
		hv, tv := viewOf(h1, c.hdrOps), viewOf(t1, c.trlOps)
		if !sameMD(restrict(h1, keysOf(c.hdrOps)), restrict(h2, keysOf(c.hdrOps))) {
			hv = []int{0}
		}
		if !sameMD(restrict(t1, keysOf(c.trlOps)), restrict(t2, keysOf(c.trlOps))) {
			tv = []int{0}
		}
		c.emit("CInvokeRet", "res", classify(err, c.sts), "msg", id, "hdr", hv, "trl", tv)
	case "Send":
		if c.stream == nil {
			return
		}
		k := op.Arg
		c.emit("CSendCall", "k", k)
		a.cur.Store("Send")
		own := proto.Clone(c.reqMsgs[k-1]).(*gt.Message)
		err := c.stream.SendMsg(own)
		scribble(own) // the caller reuses its message after the send returned
		a.cur.Store("")
		c.emit("CSendRet", "k", k, "res", classify(err, c.sts))
	case "CloseSend":
		if c.stream == nil {
			return
		}
		c.emit("CCloseSendCall")
		a.cur.Store("CloseSend")
		err := c.stream.CloseSend()
		a.cur.Store("")
		c.emit("CCloseSendRet", "res", classify(err, c.sts))
	case "Recv", "RecvAll":
		if c.stream == nil {
			return
		}
		for n := 0; n < len(c.respMsgs)+8; n++ {
			m := c.newDest()
			c.emit("CRecvCall")
			a.cur.Store("Recv")
			err := c.stream.RecvMsg(m)
			a.cur.Store("")
			id := 0
			if err == nil {
				id = c.internResp(m)
			}
			c.emit("CRecvRet", "res", classify(err, c.sts), "msg", id)
			terminal := err != nil || !c.sc.respStream()
			if err == nil && c.sc.respStream() && !c.gotFirst {
				c.gotFirst = true
				c.headerOp(a)
			}
			if terminal && !c.termSeen {
				c.termSeen = true
				c.headerOp(a)
				c.trailerOp(a)
			}
			if op.Name == "Recv" || terminal {
				return
			}
		}
	case "RecvLast":
		// the caller's last use of the stream: from here on nothing but the
		// call in progress refers to it (a garbage collection during the call
		// must not cancel it)
		st := c.stream
		if st == nil {
			return
		}
		c.stream = nil
		m := c.newDest()
		c.emit("CRecvCall")
		a.cur.Store("Recv")
		err := st.RecvMsg(m)
		a.cur.Store("")
		id := 0
		if err == nil {
			id = c.internResp(m)
		}
		c.emit("CRecvRet", "res", classify(err, c.sts), "msg", id)
	case "Header":
		if c.stream == nil {
			return
		}
		c.headerOp(a)
	case "Trailer":
		if c.stream == nil {
			return
		}
		c.trailerOp(a)
	}
}

func (c *callRun) headerOp(a *actor) {
	c.emit("CHeaderCall")
	a.cur.Store("Header")
	md, err := c.stream.Header()
	a.cur.Store("")
	hv := viewOf(md, c.hdrOps)
	if err == nil && c.termSeen {
		// at the end of the stream the grpc.Header call-option targets must agree
		u := keysOf(c.hdrOps)
		if !sameMD(restrict(c.sHdr[0], u), restrict(md, u)) || !sameMD(restrict(c.sHdr[1], u), restrict(md, u)) {
			hv = []int{0}
		}
	}
	c.emit("CHeaderRet", "res", classify(err, c.sts), "hdr", hv)
}

func (c *callRun) trailerOp(a *actor) {
	a.cur.Store("Trailer")
	md := c.stream.Trailer()
	a.cur.Store("")
	tv := viewOf(md, c.trlOps)
	if c.termSeen {
		u := keysOf(c.trlOps)
		if !sameMD(restrict(c.sTrl[0], u), restrict(md, u)) || !sameMD(restrict(c.sTrl[1], u), restrict(md, u)) {
			tv = []int{0}
		}
	}
	c.emit("CTrailerRet", "trl", tv)
}

func (c *callRun) openStream() {
	desc, name := streamDescFor(c.sc.Kind)
	c.emit("CNewStreamCall")
	st, err := c.ch.NewStream(c.ctx, desc, name, grpc.Header(&c.sHdr[0]), grpc.Trailer(&c.sTrl[0]), grpc.Header(&c.sHdr[1]), grpc.Trailer(&c.sTrl[1]))
	c.emit("CNewStreamRet", "res", classify(err, c.sts))
	if err == nil {
		c.stream = st
	}
}
