package main

import (
	"bufio"
	"crypto/sha256"
	"encoding/hex"
	"encoding/json"
	"os"
	"sort"
	"sync"
)

// Ev is one trace event. Keys "run" and "ev" are always present.
type Ev map[string]interface{}

// Tracer collects the events of the run in progress. The sequence order is the
// order in which Emit acquired the mutex: a "call" event is emitted before the
// library function is entered and a "return" event after it came back, so the
// logged order of two events of different goroutines is consistent with real
// time at the API boundary.
type Tracer struct {
	mu  sync.Mutex
	cur []Ev
}

func (t *Tracer) Emit(call int, ev string, kv ...interface{}) {
	e := Ev{"ev": ev, "call": call}
	for i := 0; i+1 < len(kv); i += 2 {
		e[kv[i].(string)] = kv[i+1]
	}
	t.mu.Lock()
	// (a run never needs more than a few hundred events; a run-away loop in
	// the code under test must not fill the disk: further events are dropped)
	if len(t.cur) < maxRunEvents {
		t.cur = append(t.cur, e)
	}
	t.mu.Unlock()
}

const maxRunEvents = 20000

func (t *Tracer) Take() []Ev {
	t.mu.Lock()
	defer t.mu.Unlock()
	r := t.cur
	t.cur = nil
	return r
}

// Sink writes runs to an NDJSON file, de-duplicating identical runs (same
// events modulo the run number): the same trace gets the same verdict.
type Sink struct {
	f        *os.File
	w        *bufio.Writer
	meta     *bufio.Writer
	metaF    *os.File
	seen     map[string]int
	nextRun  int
	Runs     int // runs offered
	Distinct int // runs written
	Events   int
	Samples  []interface{}
}

func NewSink(path string, firstRun int) (*Sink, error) {
	f, err := os.Create(path)
	if err != nil {
		return nil, err
	}
	mf, err := os.Create(path + ".meta")
	if err != nil {
		return nil, err
	}
	return &Sink{f: f, w: bufio.NewWriterSize(f, 1<<20), metaF: mf, meta: bufio.NewWriter(mf), seen: map[string]int{}, nextRun: firstRun}, nil
}

// Add writes one run (events in order). meta describes how to reproduce it
// (script, seed); it is stored beside the trace, keyed by run number.
func (s *Sink) Add(evs []Ev, meta interface{}) int {
	s.Runs++
	h := sha256.New()
	lines := make([][]byte, 0, len(evs))
	for _, e := range evs {
		delete(e, "run")
		b, _ := json.Marshal(e)
		lines = append(lines, b)
		h.Write(b)
		h.Write([]byte{'\n'})
	}
	key := hex.EncodeToString(h.Sum(nil)[:16])
	if r, ok := s.seen[key]; ok {
		return r
	}
	run := s.nextRun
	s.nextRun++
	s.seen[key] = run
	s.Distinct++
	for _, e := range evs {
		e["run"] = run
		b, _ := json.Marshal(e)
		s.w.Write(b)
		s.w.WriteByte('\n')
		s.Events++
	}
	mb, _ := json.Marshal(map[string]interface{}{"run": run, "meta": meta})
	s.meta.Write(mb)
	s.meta.WriteByte('\n')
	if len(s.Samples) < 3 {
		s.Samples = append(s.Samples, map[string]interface{}{"meta": meta, "events": evs})
	}
	return run
}

func (s *Sink) Close() {
	s.w.Flush()
	s.f.Close()
	s.meta.Flush()
	s.metaF.Close()
}

// splitByCall splits the events of a multi-call run into one event list per
// call, keeping order. Events with call 0 (scheduler observations) go to every
// call, with their "blocked" lists filtered to the call's own actors.
func splitByCall(evs []Ev) map[int][]Ev {
	ids := map[int]bool{}
	for _, e := range evs {
		if c := e["call"].(int); c != 0 {
			ids[c] = true
		}
	}
	out := map[int][]Ev{}
	var order []int
	for c := range ids {
		order = append(order, c)
	}
	sort.Ints(order)
	for _, c := range order {
		for _, e := range evs {
			ec := e["call"].(int)
			if ec != c && ec != 0 {
				continue
			}
			ne := Ev{}
			for k, v := range e {
				if k == "call" {
					continue
				}
				ne[k] = v
			}
			if ec == 0 {
				if b, ok := e["blockedByCall"].(map[int][][]string); ok {
					bl := b[c]
					if bl == nil {
						bl = [][]string{}
					}
					ne["blocked"] = bl
					delete(ne, "blockedByCall")
					if len(bl) == 0 && e["ev"] == "Quiesce" {
						continue
					}
				}
			}
			out[c] = append(out[c], ne)
		}
	}
	return out
}
