-------------------------- MODULE TraceHttpUnary  --------------------------
(***************************************************************************)
(* B-conf for httpgrpc.Channel.Invoke: are the recorded unary HTTP runs     *)
(* (in-memory transport and loopback TCP) behaviours of the L1 model       *)
(* HttpUnary?  Same construction as TraceInprocUnary.  The result of       *)
(* Invoke is matched with everything the caller can see: result kind and   *)
(* category, response message id, header view and trailer view.            *)
(***************************************************************************)
EXTENDS HttpUnary, Json, IOUtils, SequencesExt

VARIABLES l, cp
tvars == <<allvars, l, cp>>

Trace == ndJsonDeserialize(IOEnv.VERIF_TRACE)
N == Len(Trace)

ASSUME TLCSet(2, {})
ASSUME TLCSet(3, <<>>)
Mark(r, p) == LET f == TLCGet(3) IN
  TLCSet(3, IF r \in DOMAIN f /\ f[r] >= p THEN f ELSE (r :> p) @@ f)

Ignored == {"HStart", "Quiesce", "Winddown", "Census", "CensusT", "HCtxWait", "Panic", "HSetHeaderCall", "HSendHeaderCall"}

CatOK(e, res) ==
  \/ res.k # "err"
  \/ (res.st > 0 /\ e.cat = "hst")
  \/ (res.code \in {1, 4} /\ e.cat = "ctx")
  \/ (res.code = 13 /\ res.st = 0 /\ e.cat = "lib")
  \/ (res.raw /\ e.cat = "other")

Match(e, t) ==
  /\ e.n = t.ev
  /\ CASE t.ev = "HRecvRet" -> e.k = t.res.k /\ (t.res.k = "nil" => e.m = t.msg) /\ CatOK(e, t.res)
       [] t.ev \in {"HSetHeaderRet", "HSendHeaderRet", "HSetTrailerRet"} -> e.a = t.i /\ ((e.k = "nil") = t.ok)
       [] t.ev = "HReturn" -> ((e.a = 0) = (t.st.code = 0)) /\ e.m = t.nresp
       [] t.ev = "CInvokeRet" -> /\ e.k = t.res.k /\ CatOK(e, t.res)
                                 /\ (t.res.k = "nil" => e.m = t.msg)
                                 /\ e.v = t.hdr /\ e.t = t.trl
       [] OTHER -> TRUE

TInit == Init /\ l = 1 /\ cp = ""

Silent == Next /\ ev' = NoEv /\ l' = l /\ cp' = cp

Visible ==
  /\ l <= N /\ Trace[l].ev \notin Ignored \cup {"Begin", "End", "Cancel"}
  /\ Next /\ ev' # NoEv /\ ev'.n # "Cancel" /\ Match(ev', Trace[l])
  /\ Mark(Trace[l].run, l)
  /\ l' = l + 1 /\ cp' = cp

CancelLogged ==
  /\ l <= N /\ Trace[l].ev = "Cancel"
  /\ cp' = Trace[l].why /\ l' = l + 1 /\ UNCHANGED allvars

DoCancel ==
  /\ cp # "" /\ Cancel(cp)
  /\ l' = l /\ cp' = cp

SkipLine ==
  /\ l <= N /\ Trace[l].ev \in Ignored
  /\ l' = l + 1 /\ UNCHANGED <<allvars, cp>>

EndRun ==
  /\ l <= N /\ Trace[l].ev = "End"
  /\ TLCSet(2, TLCGet(2) \cup {Trace[l].run})
  /\ l' = l + 1 /\ UNCHANGED <<allvars, cp>>

Begin ==
  /\ l <= N /\ Trace[l].ev = "Begin"
  /\ l' = l + 1 /\ cp' = ""
  /\ ResetH("unary", "http", <<>>, "idle")
  /\ cpc' = "idle" /\ spc' = "idle" /\ rb' = "none" /\ reply' = NoReply /\ gone' = FALSE
  /\ hdrs' = <<>> /\ hdrsSent' = FALSE /\ tlrs' = <<>> /\ outcome' = "none" /\ decoded' = "no"
  /\ hdrOut' = <<>> /\ trlOut' = <<>>
  /\ bud' = NH /\ nhdr' = 0 /\ ntrl' = 0 /\ ncancel' = 0
  /\ lviol' = {} /\ ev' = NoEv

SkipRun ==
  /\ l <= N /\ Trace[l].ev # "Begin"
  /\ l' = Trace[l].nb /\ UNCHANGED <<allvars, cp>>

TNext == Silent \/ Visible \/ CancelLogged \/ DoCancel \/ SkipLine \/ EndRun \/ Begin \/ SkipRun

TraceSpec == TInit /\ [][TNext]_tvars

WriteOut == JsonSerialize(IOEnv.VERIF_OUT,
  [accepted |-> SetToSeq(TLCGet(2)), lines |-> N,
   reached |-> LET f == TLCGet(3) IN SetToSeq({<<r, f[r]>> : r \in DOMAIN f})])
=============================================================================
