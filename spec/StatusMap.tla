----------------------------- MODULE StatusMap -----------------------------
(***************************************************************************)
(* L2: the unary HTTP mapping of gRPC status codes (C14).                  *)
(* DocTable is transcribed from the doc comment of DefaultErrorRenderer    *)
(* (the documented contract), not from httpgrpc/codes.go.  A case is a     *)
(* status code returned by a unary handler, whether the request's own      *)
(* context was cancelled, whether a GRPC-Timeout the request carried has   *)
(* expired on the server by then (the request itself still alive: that is  *)
(* not a client that went away), which error renderer the server uses; the *)
(* observed outcome is the recorded HTTP reply and the code the real       *)
(* client derives from that reply.  A second family of cases feeds the     *)
(* client every HTTP status 100..599 without the X-GRPC-Status header.     *)
(***************************************************************************)
EXTENDS Integers, Sequences, FiniteSets

\* gRPC codes: 0..16 canonical; 17, 99 out of range; -1 stands for 0xFFFFFFFF
Codes == (1..16) \cup {17, 99, -1}
Renderers == {"default", "nothing", "custom418"}

DocTable(c) ==
  CASE c = 1 -> 502  [] c = 2 -> 500  [] c = 3 -> 400  [] c = 4 -> 504
    [] c = 5 -> 404  [] c = 6 -> 409  [] c = 7 -> 403  [] c = 16 -> 401
    [] c = 8 -> 429  [] c = 9 -> 412  [] c = 10 -> 409 [] c = 11 -> 422
    [] c = 12 -> 501 [] c = 13 -> 500 [] c = 14 -> 503 [] c = 15 -> 500
    [] OTHER -> 500

ServerCases == [fam : {"server"}, code : Codes, cancelled : BOOLEAN, expired : BOOLEAN, renderer : Renderers, status : {0}]
ClientCases == [fam : {"client"}, code : {0}, cancelled : {FALSE}, expired : {FALSE}, renderer : {"none"}, status : 100..599]
Cases == ServerCases \cup ClientCases

V(ok, why) == IF ok THEN {} ELSE {why}

\* (499 "client closed request" is for a request whose own context was
\* cancelled; an expired GRPC-Timeout on a live request is not that)
\* o: the case fields plus  http (status of the recorded reply), hdr (code in
\* X-GRPC-Status, -2 if the header is absent), client (code of the client's
\* error, 0 = nil error), panicked
Chk(o) ==
  IF o.panicked THEN {"panic"}
  ELSE IF o.fam = "server" THEN
       \* the header carries the original code, whatever the renderer does
       V(o.hdr = o.code, "status-header-code")
       \* the caller recovers exactly the original code, not the HTTP approximation
       \cup V(o.client = o.code, "client-code")
       \cup (IF o.renderer = "default"
             THEN V(o.http = IF o.code \in {1, 4} /\ o.cancelled THEN 499 ELSE DocTable(o.code), "documented-http-status")
                  \cup V(o.http >= 400, "non-ok-code-with-success-status")
             ELSE IF o.renderer = "custom418" THEN V(o.http = 418, "custom-renderer-status")
             ELSE {})
  ELSE \* a reply without the gRPC status header (a proxy's)
       V((o.client = 0) <=> (o.status >= 200 /\ o.status < 300), "fallback-ok-iff-2xx")
=============================================================================
