------------------------------ MODULE Registry ------------------------------
(***************************************************************************)
(* L2: the handler registry and method-name resolution (C12, C15).         *)
(*                                                                         *)
(* Names (C12).  Two service descriptors exist: svcA with a unary method   *)
(* M1 and a streaming method M2, svcB with a unary method M2.  A method    *)
(* name is an optional leading slash and 0..4 segments drawn from tokens   *)
(* that are registered names, near misses, empty, "." and "..".  Resolve   *)
(* says which handler, if any, a call may run.                             *)
(*                                                                         *)
(* Histories (C15).  A history is a sequence of registry operations;       *)
(* Replay folds it through the abstract registry (a function from service  *)
(* name to descriptor id) and yields what every operation must observe.    *)
(***************************************************************************)
EXTENDS Integers, Sequences, FiniteSets

-----------------------------------------------------------------------------
(* C12 *)
Tokens == {"svcA", "svcB", "svcAx", "svc", "M1", "M2", "M1x", "", ".", "..", "junk"}
RegSets == {{"svcA", "svcB"}, {"svcA"}, {}}

KindOf(svc, m) ==
  IF svc = "svcA" /\ m = "M1" THEN "unary"
  ELSE IF svc = "svcA" /\ m = "M2" THEN "stream"
  ELSE IF svc = "svcB" /\ m = "M2" THEN "unary"
  ELSE "none"

SegSeqs(n) == UNION {[1..k -> Tokens] : k \in 0..n}

NameCases(n) == [fam : {"name"}, slash : BOOLEAN, segs : SegSeqs(n), reg : RegSets,
                 kind : {"unary", "stream"}, tr : {"inproc", "http"}]

\* a well-formed name of a registered method of the asked kind
Target(segs, reg, kind) ==
  IF Len(segs) = 2 /\ segs[1] \in reg /\ KindOf(segs[1], segs[2]) = kind
  THEN <<segs[1], segs[2]>> ELSE <<>>

\* registered method, asked with the wrong kind
KindMismatch(segs, reg, kind) ==
  Len(segs) = 2 /\ segs[1] \in reg /\ KindOf(segs[1], segs[2]) \notin {"none", kind}

\* what path.Clean makes of the segments ("" and "." vanish, ".." pops)
RECURSIVE Clean(_, _)
Clean(segs, acc) ==
  IF segs = <<>> THEN acc
  ELSE LET s == Head(segs) IN
       IF s \in {"", "."} THEN Clean(Tail(segs), acc)
       ELSE IF s = ".." THEN Clean(Tail(segs), IF acc = <<>> THEN acc ELSE SubSeq(acc, 1, Len(acc) - 1))
       ELSE Clean(Tail(segs), Append(acc, s))

V(ok, why) == IF ok THEN {} ELSE {why}
AsSet(s) == {s[i] : i \in DOMAIN s}     \* JSON has no sets: they come back as sequences

\* o: case fields + ran (sequence of <<svc, method>> handlers that ran),
\* code (status code of the error, 0 = nil), raw (error was not a status
\* error), panicked
\* without a leading slash a first empty segment is the leading slash
NormSegs(o) == IF ~o.slash /\ Len(o.segs) > 0 /\ o.segs[1] = "" THEN Tail(o.segs) ELSE o.segs

ChkName(oo) ==
  IF oo.panicked THEN {"panic"}
  ELSE LET o == [oo EXCEPT !.segs = NormSegs(oo)]
           reg == AsSet(o.reg)
           t == Target(o.segs, reg, o.kind) IN
  IF t # <<>> THEN
       V(o.ran = <<t>>, "registered-method-did-not-run-exactly-its-handler")
       \cup V(o.code = 0, "registered-method-failed")
  ELSE IF o.ran # <<>> THEN
       \* something ran although the name is not a registered method's
       (IF o.tr = "http" /\ Target(Clean(o.segs, <<>>), reg, o.kind) = <<Head(o.ran)[1], Head(o.ran)[2]>>
             /\ Len(o.ran) = 1
        THEN {"path-cleaned-name-dispatched"}
        ELSE {"unregistered-name-ran-a-handler"})
  ELSE V(o.code # 0, "unregistered-name-succeeded")
       \cup V(~o.raw, "non-status-error")
       \cup (IF KindMismatch(o.segs, reg, o.kind) \/ o.code = 0 THEN {}
             ELSE IF o.tr = "inproc" THEN V(o.code = 12, "not-unimplemented")
             ELSE \* over HTTP a name that path-cleans to a registered path of
                  \* the other kind is rejected by that handler's gatekeeping
                  V(o.code = 5 \/ KindMismatch(Clean(o.segs, <<>>), reg, o.kind), "not-notfound"))

\* base paths: client and server configured alike
BasePaths == {"/", "/foo", "/foo/", "/a/b/c/", "/a/b/c", "/a b/", "/u-umlaut/", "/a+b/", "/x.y/", "/q=1&r/"}
BaseCases == [fam : {"base"}, base : BasePaths, carrier : {"server", "handleservices"},
              svc : {"svcA", "svcB"}, m : {"M1", "M2"}, kind : {"unary", "stream"}]

ChkBase(o) ==
  IF o.panicked THEN {"panic"}
  ELSE IF KindOf(o.svc, o.m) = o.kind
       THEN V(o.ran = <<<<o.svc, o.m>>>> /\ o.code = 0, "base-path-registered-method-not-reached")
       ELSE V(o.ran = <<>> /\ o.code # 0, "base-path-unregistered-ran")

-----------------------------------------------------------------------------
(* C15 *)
\* descriptors: D1 = svcA (1 unary, 1 client-streaming), D2 = svcB (1 unary),
\* D3 = another descriptor named svcA (2 unary, 1 bidi), D4 = svcC (no methods)
Descs == {"D1", "D2", "D3", "D4"}
NameOf(d) == CASE d = "D1" -> "svcA" [] d = "D2" -> "svcB" [] d = "D3" -> "svcA" [] OTHER -> "svcC"
SvcNames == {"svcA", "svcB", "svcC", "svcZ"}

Ops == [op : {"reg"}, d : Descs, typed : BOOLEAN, name : {""}]
       \cup [op : {"query"}, d : {""}, typed : {TRUE}, name : SvcNames]
       \cup [op : {"foreach", "info"}, d : {""}, typed : {TRUE}, name : {""}]

HistCases(n) == [fam : {"hist"}, ops : UNION {[1..k -> Ops] : k \in 0..n},
                 carrier : {"handlermap", "inproc", "httpserver"}]

\* the abstract registry after a prefix of the history: set of <<name, desc>>
RECURSIVE RegAfter(_, _)
RegAfter(ops, reg) ==
  IF ops = <<>> THEN reg
  ELSE LET o == Head(ops)
           taken == {p[1] : p \in reg} IN
       RegAfter(Tail(ops),
                IF o.op = "reg" /\ o.typed /\ NameOf(o.d) \notin taken
                THEN reg \cup {<<NameOf(o.d), o.d>>} ELSE reg)

\* expected observation of the i-th operation
Expect(ops, i) ==
  LET before == RegAfter(SubSeq(ops, 1, i - 1), {})
      o == ops[i]
      taken == {p[1] : p \in before} IN
  CASE o.op = "reg" -> [panic |-> ~o.typed \/ NameOf(o.d) \in taken, val |-> {}]
    [] o.op = "query" -> [panic |-> FALSE, val |-> {p \in before : p[1] = o.name}]
    [] OTHER -> [panic |-> FALSE, val |-> before]

\* o.obs[i] = [panic, val (set of <<name, desc>> pairs observed; for info the
\* services listed with the descriptor they describe), count (entries
\* visited, to catch duplicates), grpc (info equals grpc.Server's), na]
ChkHist(o) ==
  IF o.panicked THEN {"panic-outside-registration"}
  ELSE UNION { LET e == Expect(o.ops, i)
                   b == o.obs[i] IN
               IF b.na THEN {}
               ELSE V(b.panic = e.panic, IF e.panic THEN "bad-registration-accepted" ELSE "registration-refused")
                    \cup V(b.panic \/ o.ops[i].op = "reg" \/ AsSet(b.val) = e.val, "lookup-or-listing-differs-from-registrations")
                    \cup V(b.panic \/ o.ops[i].op = "reg" \/ b.count = Cardinality(e.val), "entry-visited-not-exactly-once")
                    \cup V(o.ops[i].op # "info" \/ b.grpc, "service-info-differs-from-grpc-server")
             : i \in 1..Len(o.ops) }

Chk(o) == CASE o.fam = "name" -> ChkName(o) [] o.fam = "base" -> ChkBase(o) [] OTHER -> ChkHist(o)
=============================================================================
