-------------------------------- MODULE Cloner --------------------------------
(***************************************************************************)
(* L2: message copying (C18: the four cloner adapters; C06: the copies an  *)
(* in-process RPC makes).  A message is abstracted to the set of features  *)
(* it populates; the harness instantiates each shape with concrete         *)
(* messages and projects the outcome of a copy to facts about the three    *)
(* heap graphs (source, result, old destination): equal content, no shared *)
(* mutable memory, source unchanged, old destination content gone.         *)
(***************************************************************************)
EXTENDS Integers, Sequences, FiniteSets

Features == {"scalar", "bytes", "repeated", "map", "nested", "unknown"}
Shapes == SUBSET Features

Adapters == {"proto", "codec", "clonefunc", "copyfunc"}
Types == {"Message", "HttpTrailer", "Duration"}

\* destination kinds for Copy: same type (empty or populated), the dynamic
\* representation of the same type, a different message type (generated, or
\* its dynamic representation -- all dynamic messages share one Go type), a
\* pointer to something that is not a protobuf message
Dsts == {"empty", "populated", "dyn-empty", "dyn-populated", "othertype", "dyn-othertype", "nonproto"}

AdapterCases ==
  [fam : {"adapter"}, adapter : Adapters, op : {"clone"}, type : Types, shape : Shapes, srcrep : {"gen", "dyn"},
   dst : {"none"}]
  \cup [fam : {"adapter"}, adapter : Adapters, op : {"copy"}, type : Types, shape : Shapes, srcrep : {"gen", "dyn"},
        dst : Dsts]

\* C06: through an in-process RPC
\* rep: the sender hands the library a generated or a dynamic message (the
\* receiver always uses a generated destination)
RpcCases ==
  [fam : {"rpc"}, cloner : {"default"} \cup Adapters, kind : {"unary", "cstream", "sstream", "bidi"},
   dir : {"request", "response"}, shape : Shapes, rep : {"gen", "dyn"}]

V(ok, why) == IF ok THEN {} ELSE {why}

\* must this copy succeed?
CrossRep(c) == (c.srcrep = "dyn") # (c.dst \in {"dyn-empty", "dyn-populated"})
MustSucceed(c) ==
  IF c.op = "clone" THEN TRUE
  ELSE /\ c.dst \notin {"othertype", "dyn-othertype", "nonproto"}
       /\ (~CrossRep(c) \/ c.adapter \in {"proto", "codec"})
MustRefuse(c) == c.op = "copy" /\ c.dst \in {"othertype", "dyn-othertype", "nonproto"}

\* o: case fields + err (refused), equal, disjoint, srcsame, dstuntouched
\* (the destination shares nothing with the source after a refusal), panicked
ChkAdapter(o) ==
  IF o.panicked THEN {"panic"}
  ELSE IF o.err THEN
       V(~MustSucceed(o), "copy-refused")
       \cup V(o.srcsame, "source-changed-by-refused-copy")
       \cup V(o.disjoint, "refused-copy-left-shared-memory")
  ELSE V(~MustRefuse(o), "mismatched-destination-not-refused")
       \cup (IF MustRefuse(o) THEN {}
             ELSE V(o.equal, "copy-not-equal-to-source")
                  \cup V(o.disjoint, "copy-shares-mutable-memory-with-source")
                  \cup V(o.srcsame, "source-changed"))

\* o: case fields + ran, equal (what the receiver got equals what was sent),
\* disjoint, overwritten (a pre-filled receive destination holds nothing of
\* its old content), aftersend (mutating the sent object after the send
\* returned is not visible to the receiver), panicked
ChkRpc(o) ==
  IF o.panicked THEN {"panic"}
  ELSE IF ~o.ran THEN
       \* function-based cloners need not copy across representations
       V(o.rep = "dyn" /\ o.cloner \in {"clonefunc", "copyfunc"}, "rpc-did-not-complete")
  ELSE V(o.equal, "received-message-differs")
       \cup V(o.disjoint, "caller-and-handler-share-message-memory")
       \cup V(o.overwritten, "destination-merged-not-overwritten")
       \cup V(o.aftersend, "mutation-after-send-visible-to-peer")

Chk(o) == IF o.fam = "adapter" THEN ChkAdapter(o) ELSE ChkRpc(o)
=============================================================================
