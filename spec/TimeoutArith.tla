---------------------------- MODULE TimeoutArith ----------------------------
(***************************************************************************)
(* The arithmetic of GRPC-Timeout on the HTTP server                       *)
(* (httpgrpc/server.go contextFromHeaders), for ALL non-negative values,   *)
(* not only the 8-digit ones the wire format allows, checked with Apalache *)
(* (unbounded integers, SMT) -- TLC cannot enumerate Nat.                  *)
(*                                                                         *)
(*   d := MaxInt64                                                         *)
(*   if timeoutVal <= int64(d / unit) { d = Duration(timeoutVal) * unit }  *)
(*                                                                         *)
(* Claim (Saturates): the duration handed to context.WithTimeout is        *)
(* min(v * unit, MaxInt64): never negative (no wrap-around into the past), *)
(* exact whenever the product is representable.  The formula before the    *)
(* repair of KF-11, Wrap64(v * unit), is in the module too: Apalache finds *)
(* the counterexample to WrappedIsWrong's negation.                        *)
(***************************************************************************)
EXTENDS Integers

VARIABLES
  \* @type: Int;
  v,
  \* @type: Int;
  unit,
  \* @type: Int;
  d,
  \* @type: Int;
  dOld

MaxInt64 == 9223372036854775807
Two64 == 18446744073709551616

\* nanoseconds per unit: H M S m u n
UnitsNs == {3600000000000, 60000000000, 1000000000, 1000000, 1000, 1}

\* the repaired code
Dur(val, u) == IF val <= MaxInt64 \div u THEN val * u ELSE MaxInt64

\* two's-complement wrap of a non-negative product, as Go's int64 multiplication does
Wrap64(x) == LET m == x % Two64 IN IF m > MaxInt64 THEN m - Two64 ELSE m

Init ==
  /\ v \in Nat /\ v <= MaxInt64          \* strconv.ParseInt succeeded, sign excluded by the caller's grammar
  /\ unit \in UnitsNs
  /\ d = Dur(v, unit)
  /\ dOld = Wrap64(v * unit)

Next == UNCHANGED <<v, unit, d, dOld>>

Saturates ==
  /\ d >= 0 /\ d <= MaxInt64
  /\ (v * unit <= MaxInt64 => d = v * unit)
  /\ (v * unit > MaxInt64 => d = MaxInt64)

\* the constants of the L2 specification Deadline (which TLC evaluates with
\* 32-bit integers and therefore cannot derive itself): an 8-digit value
\* overflows exactly when the unit is hours and the value is at least 2562048
ThresholdLemma ==
  /\ (unit = 3600000000000 => ((v * unit > MaxInt64) <=> (v >= 2562048)))
  /\ ((unit # 3600000000000 /\ v <= 99999999) => v * unit <= MaxInt64)

\* the formula before the repair can yield a negative duration (a deadline in the past)
OldNeverNegative == dOld >= 0
=============================================================================
