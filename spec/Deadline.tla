------------------------------ MODULE Deadline ------------------------------
(***************************************************************************)
(* L2: deadlines across the HTTP transport (C09).                          *)
(* Family "prop" (propagation): the caller's context has a deadline D      *)
(* after the call starts (or none); the client encodes the remaining time  *)
(* as GRPC-Timeout "<millis>m" (floor, at least 1); the server gives the   *)
(* handler now + millis.  All instants are measured on one clock relative  *)
(* to the start of the call and scaled by the harness into a unit in which *)
(* they are below 2^30, rounding outward (lo = floor, hi = ceil), so that  *)
(* the inequalities can only get weaker, never raise a false alarm:        *)
(*   cd   caller's deadline           dl  handler's deadline               *)
(*   th   instant the handler looked  g   1 ms in units (at least 1)       *)
(* Family "parse": a GRPC-Timeout header string, tokenised as              *)
(*   [sign, digits, val (-1 if more than 8 digits), unit, lead, trail]     *)
(* is sent to the real server; the handler's remaining time is reported in *)
(* the header's own unit (remlo, remhi), with the time elapsed since the   *)
(* request was handed to the server (elhi).                                *)
(***************************************************************************)
EXTENDS Integers, Sequences, FiniteSets

Units == {"H", "M", "S", "m", "u", "n"}
\* (letters in the wrong case, letters and signs beyond every unit letter, none)
BadUnits == {"x", "h", "s", "", "z", "~", "Q", "%", "U"}

\* representative values per digit count (the wire format allows 1..8 digits)
Vals == {0, 1, 9, 10, 99, 100, 999, 5000, 99999, 100000, 2562047, 2562048, 9999999, 10000000, 99999999}
DigitsOf(v) == IF v < 10 THEN 1 ELSE IF v < 100 THEN 2 ELSE IF v < 1000 THEN 3 ELSE IF v < 10000 THEN 4
               ELSE IF v < 100000 THEN 5 ELSE IF v < 1000000 THEN 6 ELSE IF v < 10000000 THEN 7 ELSE 8

ParseCases ==
  \* well-formed values, every unit (valid or not)
  [fam : {"parse"}, sign : {""}, val : Vals, digits : {0}, big : {"no"}, unit : Units \cup BadUnits,
   lead : {FALSE}, trail : {FALSE}]
  \* over-long values: 9, 10, 19, 20 and 25 digits, smallest and largest of that length
  \cup [fam : {"parse"}, sign : {""}, val : {-1}, digits : {9, 10, 19, 20, 25}, big : {"min", "max"}, unit : Units,
        lead : {FALSE}, trail : {FALSE}]
  \* signs, blanks, empty value
  \cup [fam : {"parse"}, sign : {"-", "+"}, val : {5, 99999999}, digits : {0}, big : {"no"}, unit : Units,
        lead : {FALSE}, trail : {FALSE}]
  \cup [fam : {"parse"}, sign : {""}, val : {5}, digits : {0}, big : {"no"}, unit : {"S", "m"},
        lead : BOOLEAN, trail : BOOLEAN]
  \cup [fam : {"parse"}, sign : {""}, val : {-2}, digits : {0}, big : {"no"}, unit : Units \cup {""},
        lead : {FALSE}, trail : {FALSE}]          \* no digits at all

\* caller deadlines: mantissa x 10^exp microseconds, and "none"
PropCases ==
  [fam : {"prop"}, mant : {1, 5, 9, 10, 15, 99, 999}, exp : 2..13, kind : {"unary", "stream"}]
  \* around and beyond 10^8 ms -- where the millisecond count no longer fits
  \* the 8 digits of the wire format -- with a fraction of a second
  \* (mantissa in ms: 27.7 h, 28 h, 7 d, 23 d)
  \cup [fam : {"prop"}, mant : {99999999, 100000001, 100000499, 100800499, 604800250, 2000000001}, exp : {3},
        kind : {"unary", "stream"}]
  \cup [fam : {"prop"}, mant : {0}, exp : {0}, kind : {"unary", "stream"}]    \* no deadline

\* the caller's outgoing metadata itself carries a grpc-timeout entry (metadata
\* forwarded by a proxy from its own incoming call): the caller's deadline, not
\* that entry, is what the handler must get
FwdCases ==
  [fam : {"prop"}, mant : {3, 40}, exp : {5}, kind : {"unary", "stream"}, mdto : {"1H", "1n", "5S", "20m"}]

Cases == ParseCases \cup PropCases \cup FwdCases

\* a header of the form the property talks about
Valid(c) == c.sign = "" /\ ~c.lead /\ ~c.trail /\ c.unit \in Units /\ (c.val >= 0 \/ c.val = -1)

\* value x unit exceeds the largest duration (2^63-1 ns); decidable here for
\* values of at most 8 digits: only hours can overflow
Overflow(c) == c.unit = "H" /\ c.val >= 2562048

V(ok, why) == IF ok THEN {} ELSE {why}

ChkParse(o) ==
  IF o.panicked THEN {"panic"}
  ELSE V(o.http = 200, "reply-not-well-formed")
       \cup (IF ~Valid(o) THEN {}
             ELSE IF o.val = -1 THEN
                  \* over-long: the duration, or saturated; never wrapped around
                  V(~o.hasdl \/ o.rempos, "overlong-value-wrapped-to-the-past")
             ELSE IF Overflow(o) THEN
                  V(~o.hasdl \/ o.saturated, "overflowing-value-not-saturated")
             ELSE V(o.hasdl, "valid-timeout-ignored")
                  \cup V(o.remlo <= o.val, "handler-deadline-later-than-timeout")
                  \cup V(o.remhi >= o.val - o.elhi, "handler-deadline-earlier-than-timeout"))

ChkProp(o) ==
  IF o.panicked THEN {"panic"}
  ELSE IF o.mant = 0 THEN V(~o.hasdl /\ ~o.hdrset, "deadline-invented")
  ELSE V(o.hasdl, "deadline-dropped")
       \cup V(o.dllo <= o.cdhi + o.thhi + o.g, "handler-deadline-extended")
       \cup V(o.dlhi >= o.cdlo - o.g, "handler-deadline-spuriously-early")

Chk(o) == IF o.fam = "parse" THEN ChkParse(o) ELSE ChkProp(o)

\* the part of ChkParse that is about the server as a gate (C11): whatever the
\* header says, no panic and a well-formed reply
ChkGate(o) ==
  IF o.fam # "parse" THEN {}
  ELSE IF o.panicked THEN {"panic"}
  ELSE V(o.http = 200, "reply-not-well-formed")
=============================================================================
