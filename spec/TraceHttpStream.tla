-------------------------- MODULE TraceHttpStream --------------------------
(***************************************************************************)
(* B-conf for httpgrpc streams: are the recorded executions of the real    *)
(* HTTP client/server streams (over the in-memory transport and over       *)
(* loopback TCP) behaviours of the L1 model HttpStream?  Same construction *)
(* as TraceInprocStream: silent internal steps, API events matched with    *)
(* their arguments, "Cancel" decoupled from the model's Cancel step, one   *)
(* file with many runs of ONE stream kind, SkipRun so that one unexplained *)
(* run does not hide the others, accepted runs in TLC register 2.          *)
(* The model performs SetHeader / SendHeader in one step (the handler is   *)
(* alone on its side of the wire): their "...Call" lines are consumed      *)
(* without a step.                                                         *)
(***************************************************************************)
EXTENDS HttpStream, Json, IOUtils, SequencesExt

VARIABLES l, cp
tvars == <<allvars, l, cp>>

Trace == ndJsonDeserialize(IOEnv.VERIF_TRACE)
N == Len(Trace)

ASSUME TLCSet(2, {})
\* register 3: run -> the highest trace line of the run that was explained
\* (diagnosis of rejected runs: the line after it is where the model is stuck)
ASSUME TLCSet(3, <<>>)
Mark(r, p) == LET f == TLCGet(3) IN
  TLCSet(3, IF r \in DOMAIN f /\ f[r] >= p THEN f ELSE (r :> p) @@ f)

Ignored == {"CNewStreamCall", "CNewStreamRet", "HStart", "Quiesce", "Winddown", "Census", "CensusT", "HCtxWait", "Panic",
            "HSetHeaderCall", "HSendHeaderCall"}

\* error categories a logged result is compatible with
CatOK(e, res) ==
  \/ res.k # "err"
  \/ (res.st > 0 /\ e.cat = "hst")
  \/ (res.code \in {1, 4} /\ ~res.raw /\ e.cat = "ctx")
  \/ (res.code = 13 /\ res.st = 0 /\ e.cat = "lib")
  \/ (res.code = 3 /\ res.st = 0 /\ e.cat = "inval")
  \/ (res.raw /\ e.cat = "other")

Match(e, t) ==
  /\ e.n = t.ev
  /\ CASE t.ev = "CSendCall" -> e.a = t.k
       [] t.ev = "CSendRet" -> e.a = t.k /\ e.k = t.res.k /\ CatOK(e, t.res)
       [] t.ev = "CRecvRet" -> e.k = t.res.k /\ (t.res.k = "nil" => e.m = t.msg) /\ CatOK(e, t.res)
       [] t.ev = "HRecvRet" -> e.k = t.res.k /\ (t.res.k = "nil" => e.m = t.msg) /\ CatOK(e, t.res)
       [] t.ev = "HSendCall" -> e.a = t.k
       [] t.ev = "HSendRet" -> e.a = t.k /\ e.k = t.res.k /\ CatOK(e, t.res)
       [] t.ev \in {"HSetHeaderRet", "HSendHeaderRet", "HSetTrailerRet"} -> e.a = t.i /\ ((e.k = "nil") = t.ok)
       [] t.ev = "CHeaderRet" -> ((e.k = "nil") = (t.res.k = "nil")) /\ (t.res.k = "nil" => e.v = t.hdr)
       [] t.ev = "CTrailerRet" -> e.v = t.trl
       [] t.ev = "HReturn" -> (e.a = 0) = (t.st.code = 0)
       [] OTHER -> TRUE

TInit == Init /\ l = 1 /\ cp = ""

Silent == Next /\ ev' = NoEv /\ l' = l /\ cp' = cp

Visible ==
  /\ l <= N /\ Trace[l].ev \notin Ignored \cup {"Begin", "End", "Cancel"}
  /\ Next /\ ev' # NoEv /\ ev'.n # "Cancel" /\ Match(ev', Trace[l])
  /\ Mark(Trace[l].run, l)
  /\ l' = l + 1 /\ cp' = cp

CancelLogged ==
  /\ l <= N /\ Trace[l].ev = "Cancel"
  /\ cp' = Trace[l].why /\ l' = l + 1 /\ UNCHANGED allvars

DoCancel ==
  /\ cp # "" /\ Cancel(cp)
  /\ l' = l /\ cp' = cp

SkipLine ==
  /\ l <= N /\ Trace[l].ev \in Ignored
  /\ l' = l + 1 /\ UNCHANGED <<allvars, cp>>

EndRun ==
  /\ l <= N /\ Trace[l].ev = "End"
  /\ TLCSet(2, TLCGet(2) \cup {Trace[l].run})
  /\ l' = l + 1 /\ UNCHANGED <<allvars, cp>>

\* re-initialise: the primed copy of Init
Begin ==
  /\ l <= N /\ Trace[l].ev = "Begin"
  /\ l' = l + 1 /\ cp' = ""
  /\ ResetH(KindC, "http", <<>>, "running")
  /\ reqWire' = <<>> /\ reqEnd' = "open" /\ respHdr' = NoHdr /\ respWire' = <<>> /\ respEnd' = "open" /\ gone' = FALSE
  /\ ready' = FALSE /\ hd' = <<>> /\ hdErr' = FALSE /\ done' = FALSE /\ rErr' = "none" /\ ctr' = NoTr
  /\ wErr' = FALSE /\ pipe' = "open" /\ icancel' = FALSE
  /\ rdpc' = "rt" /\ offer' = 0 /\ localErr' = "none"
  /\ wMu' = ""
  /\ srecvd' = 0 /\ headersSent' = FALSE /\ snap' = NoHdr /\ flushed' = FALSE /\ bodyShut' = FALSE /\ wbroken' = FALSE /\ writeFailed' = FALSE
  /\ strl' = <<>> /\ shdr' = <<>>
  /\ pc' = [t \in Threads |-> "idle"]
  /\ tmp' = [t \in Threads |-> 0]
  /\ got' = 0
  /\ bud' = [t \in Threads |-> CASE t = "cs" -> NS [] t = "cs2" -> 1 [] t = "cr" -> NR [] OTHER -> NH]
  /\ ncancel' = 0 /\ nhdr' = 0 /\ ntrl' = 0
  /\ lviol' = {} /\ ev' = NoEv

SkipRun ==
  /\ l <= N /\ Trace[l].ev # "Begin"
  /\ l' = Trace[l].nb /\ UNCHANGED <<allvars, cp>>

TNext == Silent \/ Visible \/ CancelLogged \/ DoCancel \/ SkipLine \/ EndRun \/ Begin \/ SkipRun

TraceSpec == TInit /\ [][TNext]_tvars

WriteOut == JsonSerialize(IOEnv.VERIF_OUT,
  [accepted |-> SetToSeq(TLCGet(2)), lines |-> N,
   reached |-> LET f == TLCGet(3) IN SetToSeq({<<r, f[r]>> : r \in DOMAIN f})])
=============================================================================
