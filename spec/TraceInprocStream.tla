------------------------- MODULE TraceInprocStream -------------------------
(***************************************************************************)
(* B-conf: are the recorded executions of the real in-process stream       *)
(* behaviours of the L1 model InprocStream?  The trace file holds the      *)
(* API-level events of many runs of ONE stream kind (the kind is a         *)
(* constant of the model).  A step of the trace specification is           *)
(*   - an internal step of the model (ev' = NoEv), consuming nothing;      *)
(*   - a step of the model that emits an API event (ev' # NoEv) which      *)
(*     matches the next trace line in name AND arguments (message ids,     *)
(*     operation ids, result kinds, metadata views), consuming it;         *)
(*   - "Cancel": noted; the model's own Cancel step may follow at any later *)
(*     point (the event is logged before the context is cancelled);        *)
(*   - consumption of a line that has no counterpart in the model          *)
(*     (scheduler observations, stream creation);                          *)
(*   - "Begin": re-initialisation for the next run;                        *)
(*   - SkipRun: give up on the current run and jump to the next "Begin",   *)
(*     so that one run the model cannot explain does not hide the others.  *)
(* A run is accepted when its "End" line is consumed through matching      *)
(* steps; accepted run numbers are collected in TLC register 2 and written *)
(* out by the POSTCONDITION.  A run that is not accepted is MODEL-DRIFT:    *)
(* the code did something the model cannot do (never a verdict).           *)
(***************************************************************************)
EXTENDS InprocStream, Json, IOUtils, SequencesExt

VARIABLES l, cp
tvars == <<allvars, l, cp>>

Trace == ndJsonDeserialize(IOEnv.VERIF_TRACE)
N == Len(Trace)

ASSUME TLCSet(2, {})
\* register 3: run -> the highest trace line of the run that was explained
\* (diagnosis of rejected runs: the line after it is where the model is stuck)
ASSUME TLCSet(3, <<>>)
Mark(r, p) == LET f == TLCGet(3) IN
  TLCSet(3, IF r \in DOMAIN f /\ f[r] >= p THEN f ELSE (r :> p) @@ f)

Ignored == {"CNewStreamCall", "CNewStreamRet", "HStart", "Quiesce", "Winddown", "Census", "CensusT", "HCtxWait", "Panic"}

\* error categories a logged result is compatible with
CatOK(e, res) ==
  \/ res.k # "err"
  \/ (res.st > 0 /\ e.cat = "hst")
  \/ (res.code \in {1, 4} /\ e.cat = "ctx")
  \/ (res.raw /\ e.cat \in {"ctx", "misuse"})
  \/ (res.code = 13 /\ res.st = 0 /\ e.cat = "lib")

Match(e, t) ==
  /\ e.n = t.ev
  /\ CASE t.ev = "CSendCall" -> e.a = t.k
       [] t.ev = "CSendRet" -> e.a = t.k /\ e.k = t.res.k /\ CatOK(e, t.res)
       [] t.ev = "CRecvRet" -> e.k = t.res.k /\ (t.res.k = "nil" => e.m = t.msg) /\ CatOK(e, t.res)
       [] t.ev = "HRecvRet" -> e.k = t.res.k /\ (t.res.k = "nil" => e.m = t.msg) /\ CatOK(e, t.res)
       [] t.ev = "HSendCall" -> e.a = t.k
       [] t.ev = "HSendRet" -> e.a = t.k /\ e.k = t.res.k /\ CatOK(e, t.res)
       [] t.ev \in {"HSetHeaderCall", "HSendHeaderCall"} -> e.a = t.i
       [] t.ev \in {"HSetHeaderRet", "HSendHeaderRet", "HSetTrailerRet"} -> e.a = t.i /\ ((e.k = "nil") = t.ok)
       [] t.ev = "CHeaderRet" -> ((e.k = "nil") = (t.res.k = "nil")) /\ (t.res.k = "nil" => e.v = t.hdr)
       [] t.ev = "CTrailerRet" -> e.v = t.trl
       [] t.ev = "HReturn" -> (e.a = 0) = (t.st.code = 0)
       [] t.ev = "Cancel" -> e.a = (IF t.why = "cancel" THEN 1 ELSE 4)
       [] OTHER -> TRUE

TInit == Init /\ l = 1 /\ cp = ""

Silent == Next /\ ev' = NoEv /\ l' = l /\ cp' = cp

Visible ==
  /\ l <= N /\ Trace[l].ev \notin Ignored \cup {"Begin", "End", "Cancel"}
  /\ Next /\ ev' # NoEv /\ ev'.n # "Cancel" /\ Match(ev', Trace[l])
  /\ Mark(Trace[l].run, l)
  /\ l' = l + 1 /\ cp' = cp

\* "Cancel" is logged before the context is cancelled (and a cancellation
\* reaches derived contexts asynchronously): the model's Cancel step may take
\* place at any later point
CancelLogged ==
  /\ l <= N /\ Trace[l].ev = "Cancel"
  /\ cp' = Trace[l].why /\ l' = l + 1 /\ UNCHANGED allvars

DoCancel ==
  /\ cp # "" /\ Cancel(cp)
  /\ l' = l /\ cp' = cp

SkipLine ==
  /\ l <= N /\ Trace[l].ev \in Ignored
  /\ l' = l + 1 /\ UNCHANGED <<allvars, cp>>

\* the run is over and every line of it was explained
EndRun ==
  /\ l <= N /\ Trace[l].ev = "End"
  /\ TLCSet(2, TLCGet(2) \cup {Trace[l].run})
  /\ l' = l + 1 /\ UNCHANGED <<allvars, cp>>

\* re-initialise: the primed copy of Init
Begin ==
  /\ l <= N /\ Trace[l].ev = "Begin"
  /\ l' = l + 1 /\ cp' = ""
  /\ ResetH(KindC, "inproc", <<>>, "running")
  /\ req' = <<>> /\ reqClosed' = FALSE /\ resp' = <<>> /\ respClosed' = FALSE
  /\ svrDone' = FALSE /\ svrExit' = FALSE /\ sprop' = FALSE
  /\ sst' = "H" /\ shdr' = <<>> /\ strl' = <<>> /\ smu' = ""
  /\ cst' = "H" /\ clast' = NoFrame /\ chdr' = <<>> /\ ctrl' = <<>> /\ respMu' = ""
  /\ reqMu' = "" /\ sendClosed' = FALSE
  /\ pc' = [t \in Threads |-> "idle"]
  /\ tmp' = [t \in Threads |-> NoFrame]
  /\ probe' = FALSE /\ got' = 0 /\ fst' = 0
  /\ bud' = [t \in Threads |-> CASE t = "cs" -> NS [] t = "cs2" -> NS [] t = "cr" -> NR [] OTHER -> NH]
  /\ ncancel' = 0 /\ nhdr' = 0 /\ ntrl' = 0
  /\ panicked' = FALSE /\ lviol' = {} /\ ev' = NoEv

\* every trace line carries nb: the index of the next "Begin" line after it
\* (N + 1 if there is none), computed by the orchestrator
SkipRun ==
  /\ l <= N /\ Trace[l].ev # "Begin"
  /\ l' = Trace[l].nb /\ UNCHANGED <<allvars, cp>>

TNext == Silent \/ Visible \/ CancelLogged \/ DoCancel \/ SkipLine \/ EndRun \/ Begin \/ SkipRun

TraceSpec == TInit /\ [][TNext]_tvars

WriteOut == JsonSerialize(IOEnv.VERIF_OUT,
  [accepted |-> SetToSeq(TLCGet(2)), lines |-> N,
   reached |-> LET f == TLCGet(3) IN SetToSeq({<<r, f[r]>> : r \in DOMAIN f})])
=============================================================================
