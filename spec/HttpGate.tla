------------------------------ MODULE HttpGate ------------------------------
(***************************************************************************)
(* L2: gatekeeping of the gRPC-over-HTTP server (C11).  A case is the      *)
(* shape of one HTTP request; Chk decides the recorded reply: status by    *)
(* the rule order 404 -> 405 -> 415 -> 400 -> dispatch, application code   *)
(* run at most once and only after dispatch, reply well-formed (a          *)
(* streaming reply is data frames followed by exactly one trailer frame),  *)
(* undecodable request => non-OK status (InvalidArgument for unary), JSON  *)
(* twin equal to the protobuf request's reply.  Every case is run against  *)
(* httpgrpc.Server and against httpgrpc.HandleServices.                    *)
(***************************************************************************)
EXTENDS Integers, Sequences, FiniteSets

Methods == {"POST", "GET", "PUT", "DELETE", "post"}
Targets == {"U", "CS", "SS", "BD", "unknown"}
\* "-longer" classes are other media types that merely start like a supported one
CTypes  == {"unary", "unary-charset", "unary-upper", "json", "json-charset", "stream", "stream-param",
            "text", "none", "garbage", "unary-longer", "json-longer", "stream-longer", "unary-prefix"}
Hdrs    == {"none", "valid-bin", "bad-bin"}
\* "expired": a GRPC-Timeout that has passed before the handler starts (1n): the
\* handler still runs and the reply is as well-formed as any other
Timeouts == {"none", "ok", "bad", "expired"}
Bodies  == {"valid", "empty", "garbage", "truncated"}
Carriers == {"server", "handleservices"}

Cases == [method : Methods, target : Targets, ctype : CTypes, hdr : Hdrs, timeout : Timeouts,
          body : Bodies, carrier : Carriers]

IsUnary(c) == c.target = "U"
CtOK(c) == IF IsUnary(c) THEN c.ctype \in {"unary", "unary-charset", "unary-upper", "json", "json-charset"}
           ELSE c.ctype \in {"stream", "stream-param"}
IsJson(c) == c.ctype \in {"json", "json-charset"}

Gate(c) == IF c.target = "unknown" THEN 404
           ELSE IF c.method # "POST" THEN 405
           ELSE IF ~CtOK(c) THEN 415
           ELSE IF c.hdr = "bad-bin" THEN 400
           ELSE 0            \* dispatched

\* does the request message decode?
BodyOK(c) == IF IsUnary(c) THEN (c.body = "valid" \/ (c.body = "empty" /\ ~IsJson(c)))
             ELSE IF c.target = "SS" THEN c.body = "valid"
             ELSE c.body \in {"valid", "empty"}

V(ok, why) == IF ok THEN {} ELSE {why}

\* o: case fields + http, app (application handler runs), grpc (code carried
\* by the reply, -2 none), shape ("plain" | "unary" | "stream"), nframes,
\* ntrailers, wellformed, twin (JSON reply equals protobuf twin's), allow,
\* panicked
Chk(o) ==
  IF o.panicked THEN {"panic"}
  ELSE LET g == Gate(o) IN
  IF g # 0 THEN
       V(o.http = g, "gate-status")
       \cup V(o.app = 0, "application-code-ran-for-rejected-request")
       \cup V(g # 405 \/ o.allow, "405-without-allow")
  ELSE
       V(o.app <= 1, "application-code-ran-twice")
       \* unary and server-streaming stubs decode the single request before
       \* calling the application; client-streaming ones call it at once
       \cup V(o.target \in {"U", "SS"} => (o.app = 1 <=> BodyOK(o)), "application-run-iff-request-decodable")
       \cup V(o.target \in {"CS", "BD"} => o.app = 1, "stream-handler-not-run")
       \cup (IF IsUnary(o)
             THEN (IF BodyOK(o)
                   THEN V(o.http = 200 /\ o.grpc \in {-2, 0}, "valid-unary-not-ok")
                   ELSE V(o.grpc = 3 /\ o.http = 400, "undecodable-unary-not-invalid-argument"))
                  \cup V(~(IsJson(o) /\ BodyOK(o)) \/ o.twin, "json-differs-from-protobuf")
             ELSE V(o.http = 200, "stream-status-not-200")
                  \cup V(o.wellformed /\ o.ntrailers = 1, "stream-reply-malformed")
                  \cup V(BodyOK(o) => o.grpc = 0, "valid-stream-not-ok")
                  \cup V(~BodyOK(o) => o.grpc > 0, "undecodable-stream-reported-ok"))
=============================================================================
