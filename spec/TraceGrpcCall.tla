--------------------------- MODULE TraceGrpcCall ---------------------------
(***************************************************************************)
(* B-mon: replays recorded executions of the real code (NDJSON, one API    *)
(* event per line, many runs concatenated, each starting with "Begin")     *)
(* through the L0 specification GrpcCall.  Every event is applied with the *)
(* same Ev_X update the generative specification uses; the violations      *)
(* Chk_X reports are accumulated in viol and written out as JSON when the  *)
(* whole trace has been consumed.  The replay is deterministic, hence      *)
(* linear in the length of the trace.                                      *)
(* Environment: VERIF_TRACE (input), VERIF_OUT (output).                   *)
(***************************************************************************)
EXTENDS GrpcCall, Json, IOUtils, SequencesExt

VARIABLES l, viol, bad, done

tvars == <<vars, l, viol, bad, done>>

Trace == ndJsonDeserialize(IOEnv.VERIF_TRACE)

MaxViol == 5000

Note(e, S) ==
  viol' = IF S = {} \/ Len(viol) >= MaxViol THEN viol
          ELSE viol \o SetToSeq({ [l |-> l, run |-> e.run, prop |-> x[1], why |-> x[2],
                                   ev |-> e.ev, tr |-> tr, kind |-> kind, cctx |-> cctx,
                                   closeSend |-> closeSend, hState |-> hState, hSawEOF |-> hSawEOF,
                                   card |-> CardinalityError] : x \in S })

Same == UNCHANGED vars

Apply(e) ==
  CASE e.ev = "Begin"          -> Reset(e.kind, e.tr, e.reqmd) /\ Note(e, {})
    [] e.ev = "Cancel"         -> Ev_Cancel(e.why) /\ Note(e, {})
    [] e.ev = "Winddown"       -> Ev_Winddown /\ Note(e, {})
    [] e.ev = "Fault"          -> Ev_Fault /\ Note(e, {})
    [] e.ev = "CInvokeCall"    -> Ev_CInvokeCall /\ Note(e, {})
    [] e.ev = "CInvokeRet"     -> Ev_CInvokeRet(e.res, e.msg) /\ Note(e, Chk_CInvokeRet(e.res, e.msg, e.hdr, e.trl))
    [] e.ev = "CNewStreamCall" -> Same /\ Note(e, {})
    [] e.ev = "CNewStreamRet"  -> Ev_CNewStreamRet(e.res) /\ Note(e, Chk_CNewStreamRet(e.res))
    [] e.ev = "CSendCall"      -> Ev_CSendCall(e.k) /\ Note(e, {})
    [] e.ev = "CSendRet"       -> Ev_CSendRet(e.k, e.res) /\ Note(e, Chk_CSendRet(e.k, e.res))
    [] e.ev = "CCloseSendCall" -> Ev_CCloseSendCall /\ Note(e, {})
    [] e.ev = "CCloseSendRet"  -> Same /\ Note(e, {})
    [] e.ev = "CRecvCall"      -> Ev_CRecvCall /\ Note(e, {})
    [] e.ev = "CRecvRet"       -> Ev_CRecvRet(e.res, e.msg) /\ Note(e, Chk_CRecvRet(e.res, e.msg))
    [] e.ev = "CHeaderCall"    -> Ev_CHeaderCall /\ Note(e, {})
    [] e.ev = "CHeaderRet"     -> Same /\ Note(e, Chk_CHeaderRet(e.res, e.hdr))
    [] e.ev = "CTrailerRet"    -> Same /\ Note(e, Chk_CTrailerRet(e.trl))
    [] e.ev = "HStart"         -> Ev_HStart /\ Note(e, Chk_HStart(e.md))
    [] e.ev = "HRecvCall"      -> Ev_HRecvCall /\ Note(e, {})
    [] e.ev = "HRecvRet"       -> Ev_HRecvRet(e.res, e.msg) /\ Note(e, Chk_HRecvRet(e.res, e.msg))
    [] e.ev = "HSendCall"      -> Ev_HSendCall(e.k) /\ Note(e, {})
    [] e.ev = "HSendRet"       -> Ev_HSendRet(e.k, e.res) /\ Note(e, Chk_HSendRet(e.k, e.res))
    [] e.ev = "HSetHeaderCall" -> Ev_HSetHeaderCall(e.i) /\ Note(e, {})
    [] e.ev = "HSetHeaderRet"  -> Ev_HSetHeaderRet(e.i, e.ok) /\ Note(e, Chk_HSetHeaderRet(e.i, e.ok))
    [] e.ev = "HSendHeaderCall"-> Ev_HSendHeaderCall(e.i) /\ Note(e, {})
    [] e.ev = "HSendHeaderRet" -> Ev_HSendHeaderRet(e.i, e.ok) /\ Note(e, Chk_HSendHeaderRet(e.i, e.ok))
    [] e.ev = "HSetTrailerRet" -> Ev_HSetTrailerRet(e.i, e.ok) /\ Note(e, Chk_HSetTrailerRet(e.i, e.ok))
    [] e.ev = "HCtxWait"       -> Same /\ Note(e, Chk_HCtxWait(e.done))
    [] e.ev = "HReturn"        -> Ev_HReturn(e.st, e.nresp) /\ Note(e, {})
    [] e.ev = "Quiesce"        -> Same /\ Note(e, Chk_Quiesce(e.blocked))
    [] e.ev = "Panic"          -> Same /\ Note(e, Chk_Panic)
    [] e.ev = "Census"         -> Same /\ Note(e, Chk_Census(e.n))
    [] e.ev = "CensusT"        -> Same /\ Note(e, Chk_CensusT(e.n))
    [] e.ev = "End"            -> Same /\ Note(e, {})

KnownEv == {"Begin","Cancel","Winddown","Fault","CInvokeCall","CInvokeRet","CNewStreamCall",
            "CNewStreamRet","CSendCall","CSendRet","CCloseSendCall","CCloseSendRet",
            "CRecvCall","CRecvRet","CHeaderCall","CHeaderRet","CTrailerRet","HStart",
            "HRecvCall","HRecvRet","HSendCall","HSendRet","HSetHeaderCall","HSetHeaderRet",
            "HSendHeaderCall","HSendHeaderRet","HSetTrailerRet","HCtxWait","HReturn",
            "Quiesce","Panic","Census","CensusT","End"}

TInit ==
  /\ Init0("unary", "inproc", <<>>)
  /\ l = 1 /\ viol = <<>> /\ bad = 0 /\ done = FALSE

Step ==
  /\ l <= Len(Trace)
  /\ l' = l + 1 /\ done' = done
  /\ IF Trace[l].ev \in KnownEv
       THEN Apply(Trace[l]) /\ bad' = bad
       ELSE Same /\ viol' = viol /\ bad' = bad + 1

Finish ==
  /\ l = Len(Trace) + 1 /\ ~done
  /\ done' = TRUE
  /\ JsonSerialize(IOEnv.VERIF_OUT, [consumed |-> l - 1, bad |-> bad, viol |-> viol])
  /\ UNCHANGED <<vars, l, viol, bad>>

TNext == Step \/ Finish

TraceSpec == TInit /\ [][TNext]_tvars
=============================================================================
