----------------------------- MODULE HttpStream -----------------------------
(***************************************************************************)
(* L1: implementation-shaped model of one streaming RPC over httpgrpc      *)
(* (httpgrpc/client.go: clientStream, doHttpCall, RecvMsg, SendMsg,        *)
(* CloseSend, Header, Trailer; httpgrpc/server.go: serverStream and the    *)
(* tail of handleStream) together with the behaviour of net/http's         *)
(* HTTP/1.1 client and server that matters to it (measured, DESIGN 4.4).   *)
(*                                                                         *)
(* Client side, one action per critical section / blocking point:          *)
(*   the reader goroutine  rt (RoundTrip) -> read (size preface) ->        *)
(*   deliver (select: rCh <- msg / ctx.Done) -> fin (the completion defer: *)
(*   rErr, done, close pipe reader, close rCh); the watcher that closes    *)
(*   the pipe reader when the context ends; RecvMsg (readErrorIfDone,      *)
(*   select, the single-response probe and its cancel); SendMsg            *)
(*   (readErrorIfDone, wMu, pipe write); CloseSend; Header (ready).        *)
(* The unbuffered channel rCh is a rendezvous: the reader's offer is taken *)
(* by the receiver's select step.                                          *)
(* Server side: the handler's operations act on the wire atomically        *)
(* (there is one handler goroutine); what blocks is what net/http makes    *)
(* block: a receive waits for request bytes, the first flush of the reply  *)
(* waits for the end of the request body.                                  *)
(* EXTENDS GrpcCall: API-level steps perform the L0 events; Refines is the *)
(* check L1 => L0.                                                         *)
(***************************************************************************)
EXTENDS GrpcCall

CONSTANTS
  ReqStreamC, RespStreamC,
  NS, NR, NH, MaxCancel, CancelKinds, MaxHdr, MaxTrl, Statuses, Closers, Known,
  OverrunN,     \* 0, or the number of unread request frames at which net/http stops waiting for the end of the request
                \* (more than 256 KiB unread: it answers at once and drops the connection after the reply)
  DrainFirst    \* FALSE: doHttpCall as it is; TRUE: as it was before the repair of KF-23 (the rest of the reply is
                \* drained before the end of the call is published) -- a vacuity guard, see C05_NoStuck

VARIABLES
  \* the wire
  reqWire,      \* request frames written by the client and not yet read by the server
  reqEnd,       \* "open" | "eof" (client closed its send side) | "err" (connection broke)
  respHdr,      \* the reply header (and the first bytes) have left the server: header view, or "no"
  respWire,     \* reply frames on the wire, not yet read by the client's reader goroutine
  respEnd,      \* "open" | "eof" (ServeHTTP returned)
  gone,         \* the client's transport closed the connection (its context ended)
  \* client stream
  ready, hd, hdErr, done, rErr, ctr, wErr, pipe, icancel,
  rdpc, offer, localErr,
  wMu,
  \* server stream
  srecvd, headersSent, snap, flushed, bodyShut, wbroken, writeFailed, strl, shdr,
  \* threads
  pc, tmp, got, bud, ncancel, nhdr, ntrl,
  lviol,
  ev            \* the API event the last step emitted (NoEv for internal steps); binds traces, hidden by a VIEW otherwise

lvars == <<reqWire, reqEnd, respHdr, respWire, respEnd, gone, ready, hd, hdErr, done, rErr, ctr, wErr, pipe,
           icancel, rdpc, offer, localErr, wMu, srecvd, headersSent, snap, flushed, bodyShut, wbroken, writeFailed, strl, shdr,
           pc, tmp, got, bud, ncancel, nhdr, ntrl, lviol>>
allvars == <<vars, lvars, ev>>
ViewNoEv == <<vars, lvars>>

Threads == {"cs", "cs2", "cr", "h"}

FD(k) == [t |-> "D", v |-> k, w |-> <<>>]
FT(s, m) == [t |-> "T", v |-> s, w |-> m]
NoTr == [set |-> FALSE, st |-> 0, md |-> <<>>]
NoHdr == <<-1>>     \* "no header view yet" (a sequence, like the views)

CodeOf(s) == IF s = 0 THEN 0 ELSE IF s = 1 THEN 13 ELSE 2
RNil == [k |-> "nil", code |-> 0, st |-> 0, raw |-> FALSE]
REof == [k |-> "eof", code |-> -1, st |-> 0, raw |-> TRUE]
RCtx == [k |-> "err", code |-> CtxCode, st |-> 0, raw |-> FALSE]
RSt(s) == [k |-> "err", code |-> CodeOf(s), st |-> s, raw |-> FALSE]
RLib == [k |-> "err", code |-> 13, st |-> 0, raw |-> FALSE]
ROther == [k |-> "err", code |-> 2, st |-> 0, raw |-> TRUE]     \* a transport / pipe error
RInvalid == [k |-> "err", code |-> 3, st |-> 0, raw |-> FALSE]  \* InvalidArgument (server side)
StRec(s) == [st |-> s, code |-> CodeOf(s), ctxerr |-> FALSE]

NoEv == [n |-> "", a |-> 0, k |-> "", cat |-> "", m |-> 0, v |-> <<>>]
\* category of an error result: context status, handler's status, library-made
\* Internal, InvalidArgument of the server stream, a raw transport / pipe error
Cat(r) == IF r.k # "err" THEN ""
          ELSE IF r.st > 0 THEN "hst"
          ELSE IF r.code = 13 THEN "lib"
          ELSE IF r.code = 3 THEN "inval"
          ELSE IF r.raw THEN "other"
          ELSE "ctx"
Emit(n, a, r, m, v) == ev' = [n |-> n, a |-> a, k |-> r.k, cat |-> Cat(r), m |-> m, v |-> v]
Quiet == ev' = NoEv

KindC == IF ReqStreamC /\ RespStreamC THEN "bidi"
         ELSE IF ReqStreamC THEN "cstream"
         ELSE IF RespStreamC THEN "sstream" ELSE "unary"

\* the stream's context: the caller's, or cancelled by the library itself
\* (second response on a single-response method)
CDone == cctx # "live" \/ icancel
\* what a done context makes the client report
CtxRes == IF cctx # "live" THEN RCtx ELSE [k |-> "err", code |-> 1, st |-> 0, raw |-> FALSE]

Init ==
  /\ InitH(KindC, "http", <<>>, "running")
  /\ reqWire = <<>> /\ reqEnd = "open" /\ respHdr = NoHdr /\ respWire = <<>> /\ respEnd = "open" /\ gone = FALSE
  /\ ready = FALSE /\ hd = <<>> /\ hdErr = FALSE /\ done = FALSE /\ rErr = "none" /\ ctr = NoTr
  /\ wErr = FALSE /\ pipe = "open" /\ icancel = FALSE
  /\ rdpc = "rt" /\ offer = 0 /\ localErr = "none"
  /\ wMu = ""
  /\ srecvd = 0 /\ headersSent = FALSE /\ snap = NoHdr /\ flushed = FALSE /\ bodyShut = FALSE /\ wbroken = FALSE /\ writeFailed = FALSE
  /\ strl = <<>> /\ shdr = <<>>
  /\ pc = [t \in Threads |-> "idle"]
  /\ tmp = [t \in Threads |-> 0]
  /\ got = 0
  /\ bud = [t \in Threads |-> CASE t = "cs" -> NS [] t = "cs2" -> 1 [] t = "cr" -> NR [] OTHER -> NH]
  /\ ncancel = 0 /\ nhdr = 0 /\ ntrl = 0
  /\ lviol = {}
  /\ ev = NoEv

Goto(t, p) == pc' = [pc EXCEPT ![t] = p]
Viol(S) == lviol' = lviol \cup S
NoViol == lviol' = lviol

\* the final outcome a finished stream reports (readErrorIfDone)
Final ==
  IF rErr = "ctx" THEN CtxRes
  ELSE IF rErr = "lib" THEN RLib
  ELSE IF rErr \in {"unexpected", "other"} THEN ROther
  ELSE IF ctr.st = 0 THEN REof
  ELSE RSt(ctr.st)

\* the trailer frame is read, and the completion defer runs, with rMu held
RMuFree == ~(rdpc = "fin" /\ ctr.set)

-----------------------------------------------------------------------------
(* client: SendMsg *)

StartSend ==
  /\ pc["cs"] = "idle" /\ bud["cs"] > 0
  /\ bud' = [bud EXCEPT !["cs"] = @ - 1]
  /\ Goto("cs", "s1")
  /\ Ev_CSendCall(cSendStarted + 1) /\ NoViol /\ Emit("CSendCall", cSendStarted + 1, RNil, 0, <<>>)
  /\ UNCHANGED <<reqWire, reqEnd, respHdr, respWire, respEnd, gone, ready, hd, hdErr, done, rErr, ctr, wErr, pipe,
                 icancel, rdpc, offer, localErr, wMu, srecvd, headersSent, snap, flushed, bodyShut, wbroken, writeFailed, strl, shdr,
                 tmp, got, ncancel, nhdr, ntrl>>

\* if done, _ := cs.readErrorIfDone(); done { return io.EOF }
SendCheckDone ==
  /\ pc["cs"] = "s1" /\ RMuFree
  /\ IF done
       THEN /\ Goto("cs", "idle")
            /\ Ev_CSendRet(cSendStarted, REof) /\ Viol(Chk_CSendRet(cSendStarted, REof)) /\ Emit("CSendRet", cSendStarted, REof, 0, <<>>)
       ELSE /\ Goto("cs", "s2") /\ UNCHANGED vars /\ NoViol /\ Quiet
  /\ UNCHANGED <<reqWire, reqEnd, respHdr, respWire, respEnd, gone, ready, hd, hdErr, done, rErr, ctr, wErr, pipe,
                 icancel, rdpc, offer, localErr, wMu, srecvd, headersSent, snap, flushed, bodyShut, wbroken, writeFailed, strl, shdr,
                 tmp, got, bud, ncancel, nhdr, ntrl>>

\* cs.wMu.Lock(); if cs.wErr != nil { return io.EOF }
SendLock ==
  /\ pc["cs"] = "s2" /\ wMu = ""
  /\ IF wErr
       THEN /\ Goto("cs", "idle") /\ UNCHANGED wMu
            /\ Ev_CSendRet(cSendStarted, REof) /\ Viol(Chk_CSendRet(cSendStarted, REof)) /\ Emit("CSendRet", cSendStarted, REof, 0, <<>>)
       ELSE /\ Goto("cs", "s3") /\ wMu' = "cs" /\ UNCHANGED vars /\ NoViol /\ Quiet
  /\ UNCHANGED <<reqWire, reqEnd, respHdr, respWire, respEnd, gone, ready, hd, hdErr, done, rErr, ctr, wErr, pipe,
                 icancel, rdpc, offer, localErr, srecvd, headersSent, snap, flushed, bodyShut, wbroken, writeFailed, strl, shdr,
                 tmp, got, bud, ncancel, nhdr, ntrl>>

\* cs.wErr = writeProtoMessage(cs.w, ...): the pipe write completes when the
\* transport's write loop has taken the bytes -- the server may read them
\* before SendMsg returns -- or fails because the pipe was closed
SendWrite ==
  /\ pc["cs"] = "s3"
  /\ IF pipe = "open" THEN
          /\ reqWire' = (IF gone THEN reqWire ELSE Append(reqWire, cSendStarted))
          /\ Goto("cs", "s4")
          /\ UNCHANGED <<wErr, wMu>> /\ UNCHANGED vars /\ NoViol /\ Quiet
     ELSE \* pipe closed: by CloseSend (misuse), by the completion defer, or by the watcher
          \* (a failed write looks at cs.done, under rMu: a send interrupted by the end
          \* of the call is a send after the end -- the repair of KF-24)
          /\ RMuFree
          /\ wErr' = TRUE /\ wMu' = "" /\ UNCHANGED reqWire
          /\ Goto("cs", "idle")
          /\ LET r == IF done THEN REof ELSE IF pipe = "rclosed-ctx" THEN CtxRes ELSE ROther IN
               Ev_CSendRet(cSendStarted, r) /\ Viol(Chk_CSendRet(cSendStarted, r)) /\ Emit("CSendRet", cSendStarted, r, 0, <<>>)
  /\ UNCHANGED <<reqEnd, respHdr, respWire, respEnd, gone, ready, hd, hdErr, done, rErr, ctr, pipe,
                 icancel, rdpc, offer, localErr, srecvd, headersSent, snap, flushed, bodyShut, wbroken, writeFailed, strl, shdr,
                 tmp, got, bud, ncancel, nhdr, ntrl>>

\* (writeProtoMessage is two pipe writes, size preface and payload; with an
\* empty payload the second one transfers nothing and fails if the pipe was
\* closed meanwhile: SendMsg then reports a failure although the server has
\* the complete message)
SendRet ==
  /\ pc["cs"] = "s4"
  /\ Goto("cs", "idle") /\ wMu' = ""
  /\ \/ /\ UNCHANGED wErr
        /\ Ev_CSendRet(cSendStarted, RNil) /\ Viol(Chk_CSendRet(cSendStarted, RNil)) /\ Emit("CSendRet", cSendStarted, RNil, 0, <<>>)
     \/ /\ pipe \in {"rclosed", "rclosed-ctx"} /\ RMuFree
        /\ wErr' = TRUE
        /\ LET r == IF done THEN REof ELSE IF pipe = "rclosed-ctx" THEN CtxRes ELSE ROther IN
             Ev_CSendRet(cSendStarted, r) /\ Viol(Chk_CSendRet(cSendStarted, r)) /\ Emit("CSendRet", cSendStarted, r, 0, <<>>)
  /\ UNCHANGED <<reqWire, reqEnd, respHdr, respWire, respEnd, gone, ready, hd, hdErr, done, rErr, ctr, pipe,
                 icancel, rdpc, offer, localErr, srecvd, headersSent, snap, flushed, bodyShut, wbroken, writeFailed, strl, shdr,
                 tmp, got, bud, ncancel, nhdr, ntrl>>

(* client: CloseSend *)
StartClose(t) ==
  /\ t \in Closers /\ pc[t] = "idle" /\ bud[t] > 0
  /\ bud' = [bud EXCEPT ![t] = @ - 1]
  /\ Goto(t, "c1")
  /\ Ev_CCloseSendCall /\ NoViol /\ Emit("CCloseSendCall", 0, RNil, 0, <<>>)
  /\ UNCHANGED <<reqWire, reqEnd, respHdr, respWire, respEnd, gone, ready, hd, hdErr, done, rErr, ctr, wErr, pipe,
                 icancel, rdpc, offer, localErr, wMu, srecvd, headersSent, snap, flushed, bodyShut, wbroken, writeFailed, strl, shdr,
                 tmp, got, ncancel, nhdr, ntrl>>

CloseDo(t) ==
  /\ pc[t] = "c1" /\ wMu = ""
  /\ Goto(t, "c2")
  /\ IF pipe = "open"
       THEN pipe' = "wclosed" /\ reqEnd' = IF reqEnd = "open" THEN "eof" ELSE reqEnd
       ELSE UNCHANGED <<pipe, reqEnd>>
  /\ UNCHANGED vars /\ NoViol /\ Quiet
  /\ UNCHANGED <<reqWire, respHdr, respWire, respEnd, gone, ready, hd, hdErr, done, rErr, ctr, wErr,
                 icancel, rdpc, offer, localErr, wMu, srecvd, headersSent, snap, flushed, bodyShut, wbroken, writeFailed, strl, shdr,
                 tmp, got, bud, ncancel, nhdr, ntrl>>

\* (the server may see the end of the request before CloseSend returns)
CloseRet(t) ==
  /\ pc[t] = "c2"
  /\ Goto(t, "idle")
  /\ UNCHANGED vars /\ NoViol /\ Emit("CCloseSendRet", 0, RNil, 0, <<>>)
  /\ UNCHANGED <<reqWire, reqEnd, respHdr, respWire, respEnd, gone, ready, hd, hdErr, done, rErr, ctr, wErr, pipe,
                 icancel, rdpc, offer, localErr, wMu, srecvd, headersSent, snap, flushed, bodyShut, wbroken, writeFailed, strl, shdr,
                 tmp, got, bud, ncancel, nhdr, ntrl>>

-----------------------------------------------------------------------------
(* the reader goroutine: doHttpCall *)

\* transport.RoundTrip returns with the reply header
RtReply ==
  \* (environment: once the request context is done net/http hands out no
  \* further reply bytes -- probed on the real transport; a model that lets
  \* them through produces schedules the real code does not reproduce)
  /\ rdpc = "rt" /\ respHdr # NoHdr /\ ~CDone
  /\ rdpc' = "read" /\ ready' = TRUE /\ hd' = respHdr
  /\ UNCHANGED vars /\ NoViol /\ Quiet
  /\ UNCHANGED <<reqWire, reqEnd, respHdr, respWire, respEnd, gone, hdErr, done, rErr, ctr, wErr, pipe,
                 icancel, offer, localErr, wMu, srecvd, headersSent, snap, flushed, bodyShut, wbroken, writeFailed, strl, shdr,
                 pc, tmp, got, bud, ncancel, nhdr, ntrl>>

\* transport.RoundTrip fails because the context ended (it first waits for
\* the write loop, which the watcher unblocks by closing the pipe reader)
RtCancelled ==
  /\ rdpc = "rt" /\ CDone /\ pipe \in {"rclosed-ctx", "rclosed", "wclosed"}
  /\ rdpc' = "fin" /\ ready' = TRUE /\ hdErr' = TRUE /\ localErr' = "ctx"
  /\ UNCHANGED vars /\ NoViol /\ Quiet
  /\ UNCHANGED <<reqWire, reqEnd, respHdr, respWire, respEnd, gone, hd, done, rErr, ctr, wErr, pipe,
                 icancel, offer, wMu, srecvd, headersSent, snap, flushed, bodyShut, wbroken, writeFailed, strl, shdr,
                 pc, tmp, got, bud, ncancel, nhdr, ntrl>>

\* readSizePreface / payload / trailer from reply.Body
ReadFrame ==
  /\ rdpc = "read"
  /\ \/ /\ respWire # <<>> /\ ~CDone
        /\ respWire' = Tail(respWire)
        /\ LET f == Head(respWire) IN
           IF f.t = "D"
             THEN rdpc' = "deliver" /\ offer' = f.v /\ UNCHANGED <<ctr, localErr>>
             ELSE \* the trailer: cs.ctr is filled in under rMu; an error already
                  \* recorded stays the outcome
                  rdpc' = "fin" /\ ctr' = [set |-> TRUE, st |-> f.v, md |-> f.w] /\ UNCHANGED <<offer, localErr>>
     \/ /\ respWire = <<>> /\ respEnd = "eof" /\ ~CDone
        /\ rdpc' = "fin" /\ localErr' = "unexpected" /\ UNCHANGED <<respWire, offer, ctr>>
     \/ /\ CDone
        /\ rdpc' = "fin" /\ localErr' = "ctx" /\ UNCHANGED <<respWire, offer, ctr>>
  /\ UNCHANGED vars /\ NoViol /\ Quiet
  /\ UNCHANGED <<reqWire, reqEnd, respHdr, respEnd, gone, ready, hd, hdErr, done, rErr, wErr, pipe,
                 icancel, wMu, srecvd, headersSent, snap, flushed, bodyShut, wbroken, writeFailed, strl, shdr,
                 pc, tmp, got, bud, ncancel, nhdr, ntrl>>

\* Go's select, faithfully: a goroutine that evaluates a select takes one of
\* the cases that are ready at that instant; if none is, it parks, and the
\* event that later makes a case ready decides the case (the waker hands the
\* goroutine its case).  Hence "evaluating", "parked" and "woken" are
\* different program counters:
\*   reader:   deliver (evaluating)  deliverb (parked)  deliverc (woken: ctx)
\*   receiver: r2 / r3 (evaluating)  r2b / r3b (parked) r2c / r3c (woken: ctx)
\*                                                      r2x / r3x (woken: channel closed)
\* A parked receiver and a parked reader cannot coexist: whoever arrives second
\* finds the other parked and the hand-over happens in its evaluating step.

ReceiverParked == pc["cr"] \in {"r2b", "r3b"}

\* select { case <-cs.ctx.Done(): ... ; case cs.rCh <- msg: } evaluated by the reader
DeliverEval ==
  /\ rdpc = "deliver"
  /\ \/ /\ CDone                                 \* ctx branch
        /\ rdpc' = "fin" /\ localErr' = "ctx" /\ offer' = 0
        /\ UNCHANGED <<pc, got, rErr, done, icancel>> /\ UNCHANGED vars /\ NoViol /\ Quiet
     \/ /\ pc["cr"] = "r2b"                       \* a receiver is parked: hand the message over
        /\ rdpc' = "read" /\ offer' = 0 /\ UNCHANGED <<localErr, rErr, done, icancel>>
        /\ IF RespStreamC
             THEN Goto("cr", "idle") /\ Ev_CRecvRet(RNil, offer) /\ Viol(Chk_CRecvRet(RNil, offer)) /\ Emit("CRecvRet", 0, RNil, offer, <<>>) /\ UNCHANGED got
             ELSE got' = offer /\ Goto("cr", "r3") /\ UNCHANGED vars /\ NoViol /\ Quiet
     \/ /\ pc["cr"] = "r3b"                       \* parked in the single-response probe: a second message
        /\ rdpc' = "read" /\ offer' = 0 /\ UNCHANGED <<localErr, got, rErr, done, icancel>>
        /\ Goto("cr", "r4") /\ UNCHANGED vars /\ NoViol /\ Quiet
     \/ /\ ~CDone /\ ~ReceiverParked               \* nothing ready: park
        /\ rdpc' = "deliverb"
        /\ UNCHANGED <<pc, got, offer, localErr, rErr, done, icancel>> /\ UNCHANGED vars /\ NoViol /\ Quiet
  /\ UNCHANGED <<reqWire, reqEnd, respHdr, respWire, respEnd, gone, ready, hd, hdErr, ctr, wErr, pipe,
                 wMu, srecvd, headersSent, snap, flushed, bodyShut, wbroken, writeFailed, strl, shdr,
                 tmp, bud, ncancel, nhdr, ntrl>>

\* the parked reader was woken by the context: rErr = the context's status
DeliverCtx ==
  /\ rdpc = "deliverc"
  /\ rdpc' = "fin" /\ localErr' = "ctx" /\ offer' = 0
  /\ UNCHANGED vars /\ NoViol /\ Quiet
  /\ UNCHANGED <<reqWire, reqEnd, respHdr, respWire, respEnd, gone, ready, hd, hdErr, done, rErr, ctr, wErr, pipe,
                 icancel, wMu, srecvd, headersSent, snap, flushed, bodyShut, wbroken, writeFailed, strl, shdr,
                 pc, tmp, got, bud, ncancel, nhdr, ntrl>>

\* the completion defer: rErr, done, close the pipe reader, close rCh
ReaderFin ==
  /\ rdpc = "fin"
  \* (before the repair of KF-23 the rest of the reply was drained first, i.e.
  \* this step waited for the server to end its reply -- with rMu held if the
  \* trailer had been read)
  /\ DrainFirst /\ ready /\ ~hdErr => respEnd = "eof"
  /\ rdpc' = "done" /\ done' = TRUE
  /\ pc' = [pc EXCEPT !["cr"] = IF @ = "r2b" THEN "r2x" ELSE IF @ = "r3b" THEN "r3x" ELSE @]
  /\ rErr' = IF rErr # "none" THEN rErr
             ELSE IF localErr = "none" THEN "none"
             ELSE IF CDone THEN "ctx" ELSE localErr
  /\ pipe' = IF pipe \in {"rclosed", "rclosed-ctx"} THEN pipe ELSE "rclosed"
  /\ reqEnd' = IF reqEnd = "open" THEN "err" ELSE reqEnd
  /\ UNCHANGED vars /\ NoViol /\ Quiet
  /\ UNCHANGED <<reqWire, respHdr, respWire, respEnd, gone, ready, hd, hdErr, ctr, wErr,
                 icancel, offer, localErr, wMu, srecvd, headersSent, snap, flushed, bodyShut, wbroken, writeFailed, strl, shdr,
                 tmp, got, bud, ncancel, nhdr, ntrl>>

\* the watcher goroutine: the context ended, unblock the transport's read of the request body
Watcher ==
  /\ CDone /\ rdpc # "done" /\ pipe \in {"open", "wclosed"}
  /\ pipe' = "rclosed-ctx"
  /\ reqEnd' = IF reqEnd = "open" THEN "err" ELSE reqEnd
  /\ UNCHANGED vars /\ NoViol /\ Quiet
  /\ UNCHANGED <<reqWire, respHdr, respWire, respEnd, gone, ready, hd, hdErr, done, rErr, ctr, wErr,
                 icancel, rdpc, offer, localErr, wMu, srecvd, headersSent, snap, flushed, bodyShut, wbroken, writeFailed, strl, shdr,
                 pc, tmp, got, bud, ncancel, nhdr, ntrl>>

\* the server's side of the connection learns that the client has gone (a
\* reset arrived): from then on Write fails
ConnBroken ==
  /\ gone /\ ~wbroken
  /\ wbroken' = TRUE
  /\ UNCHANGED vars /\ NoViol /\ Quiet
  /\ UNCHANGED <<reqWire, reqEnd, respHdr, respWire, respEnd, gone, ready, hd, hdErr, done, rErr, ctr, wErr, pipe,
                 icancel, rdpc, offer, localErr, wMu, srecvd, headersSent, snap, flushed, bodyShut, writeFailed, strl, shdr,
                 pc, tmp, got, bud, ncancel, nhdr, ntrl>>

\* the client's transport drops the connection once the request context is done
ConnGone ==
  /\ CDone /\ ~gone
  /\ gone' = TRUE
  \* request bytes the server has not read yet may be lost with the connection
  \* (bytes the write loop had taken but not written; unread data dropped by a
  \* reset): a suffix of the byte stream, so a clean end survives only if
  \* everything before it does
  /\ \E n \in 0..Len(reqWire) :
       /\ reqWire' = SubSeq(reqWire, 1, n)
       /\ reqEnd' \in (IF reqEnd = "eof" /\ n = Len(reqWire) THEN {"eof", "err"} ELSE {"err"})
  /\ UNCHANGED vars /\ NoViol /\ Quiet
  /\ UNCHANGED <<respHdr, respWire, respEnd, ready, hd, hdErr, done, rErr, ctr, wErr, pipe,
                 icancel, rdpc, offer, localErr, wMu, srecvd, headersSent, snap, flushed, bodyShut, wbroken, writeFailed, strl, shdr,
                 pc, tmp, got, bud, ncancel, nhdr, ntrl>>

-----------------------------------------------------------------------------
(* client: Header / Trailer / RecvMsg *)

StartHeader ==
  /\ pc["cr"] = "idle" /\ bud["cr"] > 0
  /\ bud' = [bud EXCEPT !["cr"] = @ - 1]
  /\ Goto("cr", "h1")
  /\ Ev_CHeaderCall /\ NoViol /\ Emit("CHeaderCall", 0, RNil, 0, <<>>)
  /\ UNCHANGED <<reqWire, reqEnd, respHdr, respWire, respEnd, gone, ready, hd, hdErr, done, rErr, ctr, wErr, pipe,
                 icancel, rdpc, offer, localErr, wMu, srecvd, headersSent, snap, flushed, bodyShut, wbroken, writeFailed, strl, shdr,
                 tmp, got, ncancel, nhdr, ntrl>>

\* cs.ready.Wait(); return cs.hd, cs.hdErr
HeaderDone ==
  /\ pc["cr"] = "h1" /\ ready
  /\ Goto("cr", "idle")
  /\ LET r == IF hdErr THEN CtxRes ELSE RNil IN
       UNCHANGED vars /\ Viol(Chk_CHeaderRet(r, hd)) /\ Emit("CHeaderRet", 0, r, 0, IF hdErr THEN <<>> ELSE hd)
  /\ UNCHANGED <<reqWire, reqEnd, respHdr, respWire, respEnd, gone, ready, hd, hdErr, done, rErr, ctr, wErr, pipe,
                 icancel, rdpc, offer, localErr, wMu, srecvd, headersSent, snap, flushed, bodyShut, wbroken, writeFailed, strl, shdr,
                 tmp, got, bud, ncancel, nhdr, ntrl>>

TrailerDo ==
  /\ pc["cr"] = "idle" /\ bud["cr"] > 0 /\ RMuFree
  /\ bud' = [bud EXCEPT !["cr"] = @ - 1]
  /\ UNCHANGED vars /\ Viol(Chk_CTrailerRet(IF done THEN ctr.md ELSE <<>>)) /\ Emit("CTrailerRet", 0, RNil, 0, IF done THEN ctr.md ELSE <<>>)
  /\ UNCHANGED <<reqWire, reqEnd, respHdr, respWire, respEnd, gone, ready, hd, hdErr, done, rErr, ctr, wErr, pipe,
                 icancel, rdpc, offer, localErr, wMu, srecvd, headersSent, snap, flushed, bodyShut, wbroken, writeFailed, strl, shdr,
                 pc, tmp, got, ncancel, nhdr, ntrl>>

StartRecv ==
  /\ pc["cr"] = "idle" /\ bud["cr"] > 0
  /\ bud' = [bud EXCEPT !["cr"] = @ - 1]
  /\ Goto("cr", "r1") /\ got' = 0
  /\ Ev_CRecvCall /\ NoViol /\ Emit("CRecvCall", 0, RNil, 0, <<>>)
  /\ UNCHANGED <<reqWire, reqEnd, respHdr, respWire, respEnd, gone, ready, hd, hdErr, done, rErr, ctr, wErr, pipe,
                 icancel, rdpc, offer, localErr, wMu, srecvd, headersSent, snap, flushed, bodyShut, wbroken, writeFailed, strl, shdr,
                 tmp, ncancel, nhdr, ntrl>>

RecvReturn(r, m) ==
  /\ Goto("cr", "idle")
  /\ Ev_CRecvRet(r, m) /\ Viol(Chk_CRecvRet(r, m)) /\ Emit("CRecvRet", 0, r, m, <<>>)

\* if done, err := cs.readErrorIfDone(); done { return err }
RecvCheckDone ==
  /\ pc["cr"] = "r1" /\ RMuFree
  /\ IF done THEN RecvReturn(Final, 0)
     ELSE Goto("cr", "r2") /\ UNCHANGED vars /\ NoViol /\ Quiet
  /\ UNCHANGED <<reqWire, reqEnd, respHdr, respWire, respEnd, gone, ready, hd, hdErr, done, rErr, ctr, wErr, pipe,
                 icancel, rdpc, offer, localErr, wMu, srecvd, headersSent, snap, flushed, bodyShut, wbroken, writeFailed, strl, shdr,
                 tmp, got, bud, ncancel, nhdr, ntrl>>

\* select { case <-cs.ctx.Done(): ; case msg, ok := <-cs.rCh: } evaluated by the receiver
RecvSelect ==
  /\ pc["cr"] = "r2"
  /\ \/ /\ CDone
        /\ RecvReturn(CtxRes, 0) /\ UNCHANGED <<rdpc, offer, got>>
     \/ /\ rdpc = "deliverb"                      \* the reader is parked with a message: take it
        /\ rdpc' = "read" /\ offer' = 0
        /\ IF RespStreamC
             THEN RecvReturn(RNil, offer) /\ UNCHANGED got
             ELSE got' = offer /\ Goto("cr", "r3") /\ UNCHANGED vars /\ NoViol /\ Quiet
     \/ /\ rdpc = "done"                          \* rCh closed
        /\ RecvReturn(Final, 0) /\ UNCHANGED <<rdpc, offer, got>>
     \/ /\ ~CDone /\ rdpc \notin {"deliverb", "done"}   \* nothing ready: park
        /\ Goto("cr", "r2b") /\ UNCHANGED <<rdpc, offer, got>> /\ UNCHANGED vars /\ NoViol /\ Quiet
  /\ UNCHANGED <<reqWire, reqEnd, respHdr, respWire, respEnd, gone, ready, hd, hdErr, done, rErr, ctr, wErr, pipe,
                 icancel, localErr, wMu, srecvd, headersSent, snap, flushed, bodyShut, wbroken, writeFailed, strl, shdr,
                 tmp, bud, ncancel, nhdr, ntrl>>

\* single-response methods: the second select
RecvProbe ==
  /\ pc["cr"] = "r3"
  /\ \/ /\ CDone
        /\ RecvReturn(CtxRes, 0) /\ UNCHANGED <<rdpc, offer, rErr, done, icancel>>
     \/ /\ rdpc = "deliverb"                      \* a second message
        /\ rdpc' = "read" /\ offer' = 0
        /\ Goto("cr", "r4") /\ UNCHANGED <<rErr, done, icancel>> /\ UNCHANGED vars /\ NoViol /\ Quiet
     \/ /\ rdpc = "done"                          \* closed: a failure after the message takes precedence
        /\ IF Final.k = "eof" THEN RecvReturn(RNil, got) ELSE RecvReturn(Final, 0)
        /\ UNCHANGED <<rdpc, offer, rErr, done, icancel>>
     \/ /\ ~CDone /\ rdpc \notin {"deliverb", "done"}
        /\ Goto("cr", "r3b") /\ UNCHANGED <<rdpc, offer, rErr, done, icancel>> /\ UNCHANGED vars /\ NoViol /\ Quiet
  /\ UNCHANGED <<reqWire, reqEnd, respHdr, respWire, respEnd, gone, ready, hd, hdErr, ctr, wErr, pipe,
                 localErr, wMu, srecvd, headersSent, snap, flushed, bodyShut, wbroken, writeFailed, strl, shdr,
                 tmp, got, bud, ncancel, nhdr, ntrl>>

\* a parked receiver that was woken: by the context (c) or by the closing of rCh (x)
RecvWoken ==
  /\ pc["cr"] \in {"r2c", "r3c", "r2x", "r3x"}
  /\ CASE pc["cr"] \in {"r2c", "r3c"} -> RecvReturn(CtxRes, 0)
       [] pc["cr"] = "r2x" -> RecvReturn(Final, 0)
       [] OTHER -> IF Final.k = "eof" THEN RecvReturn(RNil, got) ELSE RecvReturn(Final, 0)
  /\ UNCHANGED <<reqWire, reqEnd, respHdr, respWire, respEnd, gone, ready, hd, hdErr, done, rErr, ctr, wErr, pipe,
                 icancel, rdpc, offer, localErr, wMu, srecvd, headersSent, snap, flushed, bodyShut, wbroken, writeFailed, strl, shdr,
                 tmp, got, bud, ncancel, nhdr, ntrl>>

\* a second message on a single-response method: cs.rMu.Lock(); if cs.rErr == nil
\* { rErr = Internal; done = true; cs.cancel() }; return cs.rErr.  The reader
\* goroutine goes on meanwhile: it may read the trailer before the cancel.
RecvSecond ==
  /\ pc["cr"] = "r4" /\ RMuFree
  /\ IF rErr = "none"
       THEN /\ rErr' = "lib" /\ done' = TRUE /\ icancel' = TRUE
            /\ rdpc' = IF rdpc = "deliverb" THEN "deliverc" ELSE rdpc
            /\ RecvReturn(RLib, 0)
       ELSE /\ UNCHANGED <<rErr, done, icancel, rdpc>>
            /\ RecvReturn(Final, 0)
  /\ UNCHANGED <<reqWire, reqEnd, respHdr, respWire, respEnd, gone, ready, hd, hdErr, ctr, wErr, pipe,
                 offer, localErr, wMu, srecvd, headersSent, snap, flushed, bodyShut, wbroken, writeFailed, strl, shdr,
                 tmp, got, bud, ncancel, nhdr, ntrl>>

-----------------------------------------------------------------------------
(* the handler: operations of serverStream *)

HRunning == hState = "running" /\ pc["h"] = "idle"

\* writing to the client: possible while the connection is there
CanWrite == ~gone
\* net/http: before the first reply bytes go out the server consumes the rest
\* of the request body, i.e. it waits for its end
\* -- unless there is more of it than the server is prepared to swallow
CanFlushFirst == reqEnd # "open" \/ (OverrunN > 0 /\ Len(reqWire) >= OverrunN)

StartHRecv ==
  /\ HRunning /\ bud["h"] > 0
  /\ bud' = [bud EXCEPT !["h"] = @ - 1]
  /\ Goto("h", "hr1")
  /\ Ev_HRecvCall /\ NoViol /\ Emit("HRecvCall", 0, RNil, 0, <<>>)
  /\ UNCHANGED <<reqWire, reqEnd, respHdr, respWire, respEnd, gone, ready, hd, hdErr, done, rErr, ctr, wErr, pipe,
                 icancel, rdpc, offer, localErr, wMu, srecvd, headersSent, snap, flushed, bodyShut, wbroken, writeFailed, strl, shdr,
                 tmp, got, ncancel, nhdr, ntrl>>

HRet(r, m) == Goto("h", "idle") /\ Ev_HRecvRet(r, m) /\ Viol(Chk_HRecvRet(r, m)) /\ Emit("HRecvRet", 0, r, m, <<>>)

\* serverStream.RecvMsg: the first frame
HRecvRead ==
  /\ pc["h"] = "hr1"
  /\ IF ~ReqStreamC /\ srecvd > 0 THEN
          HRet(REof, 0) /\ UNCHANGED <<reqWire, srecvd, tmp>>
     ELSE \/ /\ bodyShut
             /\ srecvd' = srecvd + 1
             /\ HRet(ROther, 0) /\ UNCHANGED <<reqWire, tmp>>
          \/ /\ ~bodyShut /\ reqWire # <<>>
             /\ reqWire' = Tail(reqWire) /\ srecvd' = srecvd + 1
             /\ IF ReqStreamC THEN HRet(RNil, Head(reqWire)) /\ UNCHANGED tmp
                ELSE tmp' = [tmp EXCEPT !["h"] = Head(reqWire)] /\ Goto("h", "hr2") /\ UNCHANGED vars /\ NoViol /\ Quiet
          \/ /\ ~bodyShut /\ reqWire = <<>> /\ reqEnd = "eof"
             /\ srecvd' = srecvd + 1
             /\ HRet(REof, 0) /\ UNCHANGED <<reqWire, tmp>>
          \/ /\ ~bodyShut /\ reqWire = <<>> /\ reqEnd = "err"
             /\ srecvd' = srecvd + 1
             /\ HRet(ROther, 0) /\ UNCHANGED <<reqWire, tmp>>
  /\ UNCHANGED <<reqEnd, respHdr, respWire, respEnd, gone, ready, hd, hdErr, done, rErr, ctr, wErr, pipe,
                 icancel, rdpc, offer, localErr, wMu, headersSent, snap, flushed, bodyShut, wbroken, writeFailed, strl, shdr,
                 got, bud, ncancel, nhdr, ntrl>>

\* single-request methods: there must be nothing after the one request
HRecvProbe ==
  /\ pc["h"] = "hr2"
  /\ \/ /\ reqWire # <<>> /\ reqWire' = Tail(reqWire) /\ HRet(RInvalid, 0)
     \/ /\ reqWire = <<>> /\ reqEnd = "eof" /\ HRet(RNil, tmp["h"]) /\ UNCHANGED reqWire
     \/ /\ reqWire = <<>> /\ reqEnd = "err" /\ HRet(RInvalid, 0) /\ UNCHANGED reqWire
  /\ tmp' = [tmp EXCEPT !["h"] = 0]
  /\ UNCHANGED <<reqEnd, respHdr, respWire, respEnd, gone, ready, hd, hdErr, done, rErr, ctr, wErr, pipe,
                 icancel, rdpc, offer, localErr, wMu, srecvd, headersSent, snap, flushed, bodyShut, wbroken, writeFailed, strl, shdr,
                 got, bud, ncancel, nhdr, ntrl>>

StartHSend ==
  /\ HRunning /\ bud["h"] > 0
  /\ bud' = [bud EXCEPT !["h"] = @ - 1]
  /\ Goto("h", "hs1")
  /\ Ev_HSendCall(hSendStarted + 1) /\ NoViol /\ Emit("HSendCall", hSendStarted + 1, RNil, 0, <<>>)
  /\ UNCHANGED <<reqWire, reqEnd, respHdr, respWire, respEnd, gone, ready, hd, hdErr, done, rErr, ctr, wErr, pipe,
                 icancel, rdpc, offer, localErr, wMu, srecvd, headersSent, snap, flushed, bodyShut, wbroken, writeFailed, strl, shdr,
                 tmp, got, ncancel, nhdr, ntrl>>

\* the bytes of a reply frame leave the server (Write + Flush)
\* first: header snapshot and the wait for the end of the request body.
\* ok: whether Write reported success.  A write towards a client that has gone
\* is lost; Write reports the failure only once an earlier flush has failed
\* (wbroken -- over TCP possibly later still, hence the nondeterminism)
WireOut(f, ok) ==
  /\ flushed \/ CanFlushFirst
  /\ ok = ~wbroken
  /\ IF CanWrite /\ ~wbroken
       THEN /\ respWire' = Append(respWire, f)
            /\ respHdr' = IF respHdr = NoHdr THEN (IF snap = NoHdr THEN shdr ELSE snap) ELSE respHdr
            /\ UNCHANGED wbroken
       ELSE /\ UNCHANGED <<respWire, respHdr>>
            /\ wbroken' \in (IF wbroken THEN {TRUE} ELSE BOOLEAN)
  /\ writeFailed' = (writeFailed \/ ~ok)
  /\ flushed' = TRUE
  \* the unread request body is discarded and the body closed: later reads by
  \* the handler fail (http.ErrBodyReadAfterClose) -- HTTP/1.1 is half-duplex
  /\ reqWire' = IF flushed THEN reqWire ELSE <<>>
  /\ bodyShut' = TRUE

HSendDo ==
  /\ pc["h"] = "hs1"
  /\ IF writeFailed THEN
          /\ Goto("h", "idle") /\ UNCHANGED tmp
          /\ Ev_HSendRet(hSendStarted, REof) /\ Viol(Chk_HSendRet(hSendStarted, REof)) /\ Emit("HSendRet", hSendStarted, REof, 0, <<>>)
          /\ UNCHANGED <<respWire, respHdr, writeFailed, flushed, bodyShut, wbroken, reqWire, headersSent, snap>>
     ELSE /\ \E ok \in BOOLEAN :
               /\ WireOut(FD(hSendStarted), ok)
               /\ tmp' = [tmp EXCEPT !["h"] = IF ok THEN 1 ELSE 2]
          /\ headersSent' = TRUE
          /\ snap' = IF snap = NoHdr THEN shdr ELSE snap
          /\ Goto("h", "hs2")
          /\ UNCHANGED vars /\ NoViol /\ Quiet
  /\ UNCHANGED <<reqEnd, respEnd, gone, ready, hd, hdErr, done, rErr, ctr, wErr, pipe,
                 icancel, rdpc, offer, localErr, wMu, srecvd, strl, shdr,
                 got, bud, ncancel, nhdr, ntrl>>

\* (the client may have received the message before SendMsg returns)
HSendRet ==
  /\ pc["h"] = "hs2"
  /\ Goto("h", "idle") /\ tmp' = [tmp EXCEPT !["h"] = 0]
  /\ LET r == IF tmp["h"] = 1 THEN RNil ELSE ROther IN
       Ev_HSendRet(hSendStarted, r) /\ Viol(Chk_HSendRet(hSendStarted, r)) /\ Emit("HSendRet", hSendStarted, r, 0, <<>>)
  /\ UNCHANGED <<reqWire, reqEnd, respHdr, respWire, respEnd, gone, ready, hd, hdErr, done, rErr, ctr, wErr, pipe,
                 icancel, rdpc, offer, localErr, wMu, srecvd, headersSent, snap, flushed, bodyShut, wbroken, writeFailed, strl, shdr,
                 got, bud, ncancel, nhdr, ntrl>>

\* SetHeader / SendHeader (SendHeader only calls WriteHeader: nothing is flushed)
HSetHeader(send) ==
  /\ HRunning /\ bud["h"] > 0 /\ nhdr < MaxHdr
  /\ bud' = [bud EXCEPT !["h"] = @ - 1] /\ nhdr' = nhdr + 1
  /\ LET ok == ~headersSent IN
       /\ shdr' = IF ok THEN Append(shdr, nhdr + 1) ELSE shdr
       /\ headersSent' = (headersSent \/ (ok /\ send))
       /\ snap' = IF ok /\ send /\ snap = NoHdr THEN Append(shdr, nhdr + 1) ELSE snap
       /\ IF send
            THEN Ev_HSendHeaderAtomic(nhdr + 1, ok) /\ Viol(Chk_HSendHeaderAtomic(nhdr + 1, ok))
                 /\ Emit("HSendHeaderRet", nhdr + 1, IF ok THEN RNil ELSE ROther, 0, <<>>)
            ELSE Ev_HSetHeaderRet(nhdr + 1, ok) /\ Viol(Chk_HSetHeaderRet(nhdr + 1, ok))
                 /\ Emit("HSetHeaderRet", nhdr + 1, IF ok THEN RNil ELSE ROther, 0, <<>>)
  /\ UNCHANGED <<reqWire, reqEnd, respHdr, respWire, respEnd, gone, ready, hd, hdErr, done, rErr, ctr, wErr, pipe,
                 icancel, rdpc, offer, localErr, wMu, srecvd, flushed, bodyShut, wbroken, writeFailed, strl,
                 pc, tmp, got, ncancel, ntrl>>

\* the same with EMPTY metadata: nothing is added to the headers, but
\* SendHeader still commits them (WriteHeader)
HSetHeaderE(send) ==
  /\ HRunning /\ bud["h"] > 0
  /\ bud' = [bud EXCEPT !["h"] = @ - 1]
  \* (the stream's own SetHeader refuses after the headers were sent; the
  \* helper grpc.SetHeader(ctx, md) returns nil for empty metadata at once)
  /\ \E ok \in (IF headersSent /\ ~send THEN BOOLEAN ELSE {~headersSent}) :
       /\ headersSent' = (headersSent \/ (ok /\ send))
       /\ snap' = IF ok /\ send /\ snap = NoHdr THEN shdr ELSE snap
       /\ IF send
            THEN Ev_HSendHeaderAtomic(0, ok) /\ Viol(Chk_HSendHeaderAtomic(0, ok))
                 /\ Emit("HSendHeaderRet", 0, IF ok THEN RNil ELSE ROther, 0, <<>>)
            ELSE Ev_HSetHeaderRet(0, ok) /\ Viol(Chk_HSetHeaderRet(0, ok))
                 /\ Emit("HSetHeaderRet", 0, IF ok THEN RNil ELSE ROther, 0, <<>>)
  /\ UNCHANGED <<reqWire, reqEnd, respHdr, respWire, respEnd, gone, ready, hd, hdErr, done, rErr, ctr, wErr, pipe,
                 icancel, rdpc, offer, localErr, wMu, srecvd, flushed, bodyShut, wbroken, writeFailed, strl, shdr,
                 pc, tmp, got, ncancel, nhdr, ntrl>>

SetTrailerDo ==
  /\ HRunning /\ bud["h"] > 0 /\ ntrl < MaxTrl
  /\ bud' = [bud EXCEPT !["h"] = @ - 1] /\ ntrl' = ntrl + 1
  /\ strl' = Append(strl, ntrl + 1)
  /\ Ev_HSetTrailerRet(ntrl + 1, TRUE) /\ Viol(Chk_HSetTrailerRet(ntrl + 1, TRUE)) /\ Emit("HSetTrailerRet", ntrl + 1, RNil, 0, <<>>)
  /\ UNCHANGED <<reqWire, reqEnd, respHdr, respWire, respEnd, gone, ready, hd, hdErr, done, rErr, ctr, wErr, pipe,
                 icancel, rdpc, offer, localErr, wMu, srecvd, headersSent, snap, flushed, bodyShut, wbroken, writeFailed, shdr,
                 pc, tmp, got, ncancel, nhdr>>

\* the handler function returns
HReturnDo(s) ==
  /\ HRunning /\ s \in Statuses
  /\ Goto("h", "tl") /\ tmp' = [tmp EXCEPT !["h"] = s]
  /\ Ev_HReturn(StRec(s), 0) /\ NoViol /\ Emit("HReturn", s, RNil, 0, <<>>)
  /\ UNCHANGED <<reqWire, reqEnd, respHdr, respWire, respEnd, gone, ready, hd, hdErr, done, rErr, ctr, wErr, pipe,
                 icancel, rdpc, offer, localErr, wMu, srecvd, headersSent, snap, flushed, bodyShut, wbroken, writeFailed, strl, shdr,
                 got, bud, ncancel, nhdr, ntrl>>

\* the tail of handleStream: the trailer frame (unless a write failed before) ...
Tail1 ==
  /\ pc["h"] = "tl"
  /\ IF writeFailed
       THEN UNCHANGED <<respWire, respHdr, writeFailed, flushed, bodyShut, wbroken, reqWire>>
       ELSE \E ok \in BOOLEAN : WireOut(FT(tmp["h"], strl), ok)
  /\ snap' = IF snap = NoHdr THEN shdr ELSE snap
  /\ Goto("h", "tl2")
  /\ UNCHANGED vars /\ NoViol /\ Quiet
  /\ UNCHANGED <<reqEnd, respEnd, gone, ready, hd, hdErr, done, rErr, ctr, wErr, pipe,
                 icancel, rdpc, offer, localErr, wMu, srecvd, headersSent, strl, shdr,
                 tmp, got, bud, ncancel, nhdr, ntrl>>

\* ... then the deferred drainAndClose(r.Body) reads the request body to its
\* end (or to the error that ends it), and ServeHTTP returns: the reply ends.
\* When the reply went out before the end of the request (OverrunN) this waits
\* for the client.
Tail2 ==
  /\ pc["h"] = "tl2" /\ reqEnd # "open"
  /\ respEnd' = "eof"
  /\ Goto("h", "done")
  /\ UNCHANGED vars /\ NoViol /\ Quiet
  /\ UNCHANGED <<reqWire, reqEnd, respHdr, respWire, gone, ready, hd, hdErr, done, rErr, ctr, wErr, pipe,
                 icancel, rdpc, offer, localErr, wMu, srecvd, headersSent, snap, flushed, bodyShut, wbroken, writeFailed, strl, shdr,
                 tmp, got, bud, ncancel, nhdr, ntrl>>

-----------------------------------------------------------------------------
\* the context ends: every goroutine parked in a select on ctx.Done() is woken
\* with that case
WakeCtx ==
  /\ pc' = [pc EXCEPT !["cr"] = IF @ = "r2b" THEN "r2c" ELSE IF @ = "r3b" THEN "r3c" ELSE @]
  /\ rdpc' = IF rdpc = "deliverb" THEN "deliverc" ELSE rdpc

Cancel(why) ==
  /\ cctx = "live" /\ ncancel < MaxCancel
  /\ ncancel' = ncancel + 1
  /\ IF icancel THEN UNCHANGED <<pc, rdpc>> ELSE WakeCtx
  /\ Ev_Cancel(why) /\ NoViol /\ Emit("Cancel", IF why = "cancel" THEN 1 ELSE 4, RNil, 0, <<>>)
  /\ UNCHANGED <<reqWire, reqEnd, respHdr, respWire, respEnd, gone, ready, hd, hdErr, done, rErr, ctr, wErr, pipe,
                 icancel, offer, localErr, wMu, srecvd, headersSent, snap, flushed, bodyShut, wbroken, writeFailed, strl, shdr,
                 tmp, got, bud, nhdr, ntrl>>

Terminated ==
  /\ \A t \in Threads : pc[t] \in {"idle", "done"}
  /\ pc["h"] = "done" /\ rdpc = "done"
  /\ UNCHANGED allvars

Next ==
  \/ StartSend \/ SendCheckDone \/ SendLock \/ SendWrite \/ SendRet
  \/ \E t \in Closers : StartClose(t) \/ CloseDo(t) \/ CloseRet(t)
  \/ RtReply \/ RtCancelled \/ ReadFrame \/ DeliverEval \/ DeliverCtx \/ ReaderFin \/ Watcher \/ ConnGone \/ ConnBroken
  \/ StartHeader \/ HeaderDone \/ TrailerDo
  \/ StartRecv \/ RecvCheckDone \/ RecvSelect \/ RecvProbe \/ RecvWoken \/ RecvSecond
  \/ StartHRecv \/ HRecvRead \/ HRecvProbe
  \/ StartHSend \/ HSendDo \/ HSendRet \/ HSetHeader(TRUE) \/ HSetHeader(FALSE) \/ HSetHeaderE(TRUE) \/ HSetHeaderE(FALSE) \/ SetTrailerDo
  \/ \E s \in Statuses : HReturnDo(s)
  \/ Tail1 \/ Tail2
  \/ \E w \in CancelKinds : Cancel(w)
  \/ Terminated

Spec == Init /\ [][Next]_allvars

\* fairness for the liveness form of C05: every internal step of an operation
\* in progress, of the reader goroutine, of the watcher and of the server's
\* library code is eventually taken.  Nothing obliges the threads to start new
\* operations, the handler to return, the context to end or the connection to
\* break.
Fair ==
  /\ WF_allvars(SendCheckDone \/ SendLock \/ SendWrite \/ SendRet)
  /\ WF_allvars(\E t \in Closers : CloseDo(t) \/ CloseRet(t))
  /\ WF_allvars(RtReply \/ RtCancelled \/ ReadFrame \/ DeliverEval \/ DeliverCtx \/ ReaderFin)
  /\ WF_allvars(Watcher)
  /\ WF_allvars(HeaderDone)
  /\ WF_allvars(RecvCheckDone \/ RecvSelect \/ RecvProbe \/ RecvWoken \/ RecvSecond)
  /\ WF_allvars(HRecvRead \/ HRecvProbe)
  /\ WF_allvars(HSendDo \/ HSendRet)
  /\ WF_allvars(Tail1 \/ Tail2)

FairSpec == Spec /\ Fair

-----------------------------------------------------------------------------
TypeOK == cctx \in {"live", "cancel", "deadline"}

Refines == lviol \subseteq Known

\* the two "cs.rCh was closed but cs.done == false" panics are unreachable:
\* rCh is closed (rdpc = "done") only in the step that sets done
NoPanic == (rdpc = "done") => done

\* once the context is done no client operation stays parked; once the handler
\* has finished and the client has closed its send side (so that net/http lets
\* the reply out) none either
ClientParked ==
  \/ (pc["cr"] = "h1" /\ ~ready)
  \/ pc["cr"] \in {"r2b", "r3b"}
\* a parked operation whose wake-up is still on its way (enabled steps of the
\* reader goroutine, the watcher or the server tail) is not stuck
Progress ==
  \/ ENABLED RtReply \/ ENABLED RtCancelled \/ ENABLED ReadFrame \/ ENABLED DeliverEval \/ ENABLED DeliverCtx
  \/ ENABLED ReaderFin
  \/ ENABLED Watcher \/ ENABLED Tail1 \/ ENABLED Tail2
\* (the final frame has left the server although the request has not ended:
\* net/http gave up waiting, OverrunN)
TrailerOut == pc["h"] \in {"tl2", "done"} /\ flushed /\ ~writeFailed
C05_NoStuck ==
  ((cctx # "live") \/ (pc["h"] = "done" /\ closeSend) \/ TrailerOut) => (~ClientParked \/ Progress)
\* C05, liveness form: once the context is done, or the handler has finished
\* and the client has closed its send side (so that net/http lets the reply
\* out), every client operation in progress returns
AllIdle == \A t \in {"cs", "cs2", "cr"} : pc[t] = "idle"
C05_Live == (CDone \/ (pc["h"] = "done" /\ closeSend)) ~> AllIdle
=============================================================================