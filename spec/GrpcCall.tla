----------------------------- MODULE GrpcCall -----------------------------
(***************************************************************************)
(* L0: the transport-independent meaning of ONE RPC as its two users see   *)
(* it at the grpc.ClientConnInterface / ClientStream / ServerStream /      *)
(* handler boundary.  It is property-shaped: the state is what the         *)
(* properties C01-C05, C08 and C20 talk about, every API event is one      *)
(* action Ev_X(e) that updates that state, and for every event Chk_X(e)    *)
(* is the set of <<property, reason>> pairs the event violates in the      *)
(* current state.  The generative specification (Spec) allows exactly the  *)
(* events with Chk_X(e) = {}: it is the most liberal behaviour satisfying  *)
(* the properties.  The trace specification (TraceGrpcCall) replays a      *)
(* recorded execution of the real code through the same Ev_X / Chk_X.      *)
(*                                                                         *)
(* Values are interned by the harness: a message is the index of the equal *)
(* message among those handed to the library for this direction of this    *)
(* call (0 = equal to nothing, -1 = belongs to another call); a metadata   *)
(* view is the sequence of header/trailer operation indices whose join it  *)
(* equals on the application's keys (<<0>> = equal to no such join); a     *)
(* status is the index in the call's table of handler statuses.            *)
(***************************************************************************)
EXTENDS Integers, Sequences, FiniteSets, TLC

VARIABLES
  kind,        \* "unary" | "cstream" | "sstream" | "bidi"
  tr,          \* "inproc" | "http" | "ref"
  reqMd,       \* view of the metadata the caller attached (<<>> or <<1>>)
  cctx,        \* "live" | "cancel" | "deadline"
  fault,       \* a fault on the message path was injected
  cSendStarted,\* highest request id whose send was started
  cSendOk,     \* set of request ids whose send returned nil
  closeSend,   \* CloseSend was called
  hRecvd,      \* request ids obtained by the handler, in order
  hRecvStarted,\* number of handler receive operations started
  hSendStarted,\* highest response id whose send was started
  hSendOk,     \* set of response ids whose send returned nil
  cRecvd,      \* response ids obtained by the client, in order
  cRecvStarted,\* number of client receive operations started
  cHdrStarted, \* number of client Header() operations started
  hdrAcc,      \* header op ids accumulated by successful Set/SendHeader
  hdrSent,     \* "no" | "maybe" | "yes"
  hdrCand,     \* set of header views the client may legitimately see
  hPend,       \* pending handler op: <<name, arg, hdrSent at call>> or <<>>
  trlAcc,      \* trailer op ids accumulated by SetTrailer
  hState,      \* "idle" | "running" | "returned"
  hStatus,     \* [st, code, ctxerr] of the handler's return, or NoStatus
  cTerm,       \* first terminal result seen by the client, or NoRes
  winddown,    \* the harness has started tearing the call down
  hSawEOF      \* the handler has read the request stream to its end

vars == <<kind, tr, reqMd, cctx, fault, cSendStarted, cSendOk, closeSend,
          hRecvd, hRecvStarted, hSendStarted, hSendOk, cRecvd, cRecvStarted,
          cHdrStarted, hdrAcc, hdrSent, hdrCand, hPend, trlAcc, hState,
          hStatus, cTerm, winddown, hSawEOF>>

K == 1   \* buffered messages per direction allowed by C20

NoStatus == [st |-> -1, code |-> -1, ctxerr |-> FALSE]
NoRes    == [k |-> "none", code |-> -1, st |-> -1, raw |-> FALSE]

RespStream == kind \in {"sstream", "bidi"}
ReqStream  == kind \in {"cstream", "bidi"}

RangeOf(s) == {s[i] : i \in 1..Len(s)}
LastOr0(s)  == IF Len(s) = 0 THEN 0 ELSE s[Len(s)]

V(ok, p, why) == IF ok THEN {} ELSE {<<p, why>>}

CtxCode == IF cctx = "cancel" THEN 1 ELSE IF cctx = "deadline" THEN 4 ELSE -1

InitH(k, t, md, hs) ==
  /\ kind = k /\ tr = t /\ reqMd = md
  /\ cctx = "live" /\ fault = FALSE
  /\ cSendStarted = 0 /\ cSendOk = {} /\ closeSend = FALSE
  /\ hRecvd = <<>> /\ hRecvStarted = 0
  /\ hSendStarted = 0 /\ hSendOk = {}
  /\ cRecvd = <<>> /\ cRecvStarted = 0 /\ cHdrStarted = 0
  /\ hdrAcc = <<>> /\ hdrSent = "no" /\ hdrCand = {} /\ hPend = <<>>
  /\ trlAcc = <<>> /\ hState = hs /\ hStatus = NoStatus
  /\ cTerm = NoRes /\ winddown = FALSE /\ hSawEOF = FALSE

Init0(k, t, md) == InitH(k, t, md, "idle")

ResetH(k, t, md, hs) ==
  /\ kind' = k /\ tr' = t /\ reqMd' = md
  /\ cctx' = "live" /\ fault' = FALSE
  /\ cSendStarted' = 0 /\ cSendOk' = {} /\ closeSend' = FALSE
  /\ hRecvd' = <<>> /\ hRecvStarted' = 0
  /\ hSendStarted' = 0 /\ hSendOk' = {}
  /\ cRecvd' = <<>> /\ cRecvStarted' = 0 /\ cHdrStarted' = 0
  /\ hdrAcc' = <<>> /\ hdrSent' = "no" /\ hdrCand' = {} /\ hPend' = <<>>
  /\ trlAcc' = <<>> /\ hState' = hs /\ hStatus' = NoStatus
  /\ cTerm' = NoRes /\ winddown' = FALSE /\ hSawEOF' = FALSE

Reset(k, t, md) == ResetH(k, t, md, "idle")

-----------------------------------------------------------------------------
(* Derived notions used by several properties *)

HReturned == hState = "returned"

\* the handler's own (non-OK) status, as the client must see it
IsHandlerStatus(res) ==
  /\ HReturned /\ hStatus.code # 0
  /\ res.k = "err" /\ res.st = hStatus.st /\ res.code = hStatus.code

\* the status a cancelled / expired call may report
IsCtxStatus(res) ==
  /\ cctx # "live" /\ res.k = "err" /\ ~res.raw /\ res.code = CtxCode

\* number of responses the handler produced (for single-response kinds)
NResp == hSendStarted

\* all responses whose send succeeded have been obtained by the client
RespComplete == hSendOk \subseteq RangeOf(cRecvd)
ReqComplete  == cSendOk \subseteq RangeOf(hRecvd)

\* the call ended in success as far as the handler is concerned
HandlerOK == HReturned /\ hStatus.code = 0

\* an error that the library itself must raise: wrong number of responses
CardinalityError ==
  /\ ~RespStream /\ ((HandlerOK /\ NResp # 1) \/ NResp >= 2)

-----------------------------------------------------------------------------
(* Client terminal results (C02, C04, C08, part of C01)                    *)
(* res: the result; nmsg: 1 if the result carries a message (unary nil /   *)
(* single-response RecvMsg nil), 0 otherwise                               *)

ChkTerminal(res, nmsg, got) ==
  IF res.k = "nil" \/ (res.k = "eof" /\ RespStream) THEN
       \* success
       V(HReturned, "C02", "success-before-handler-returned")
       \cup V(~HReturned \/ hStatus.code = 0,
              IF hStatus.ctxerr THEN "C04" ELSE "C02", "success-but-handler-failed")
       \* (single-response kinds: one response *and* a non-OK final status must
       \* come out as that status -- the cardinality clause's own wording)
       \cup V(RespStream \/ ~HReturned \/ hStatus.code = 0 \/ hStatus.ctxerr,
              "C08", "single-response-success-although-final-status-non-ok")
       \cup V(~fault, "C02", "success-despite-fault")
       \cup V(hSendOk \subseteq got, IF cctx # "live" THEN "C04" ELSE "C01", "success-with-missing-messages")
       \cup V(RespStream \/ (NResp = 1 /\ nmsg = 1), "C08", "success-without-exactly-one-response")
  ELSE IF res.k = "eof" THEN
       \* io.EOF from a single-response receive: only the "handler returned
       \* OK without any response" outcome of grpc-go, never anything else
       V(HandlerOK /\ NResp = 0,
         IF cctx # "live" THEN "C04" ELSE IF HandlerOK THEN "C08" ELSE "C02", "bare-eof")
  ELSE
       \* an error
       IF IsHandlerStatus(res) THEN {}
       ELSE IF IsCtxStatus(res) THEN {}
       ELSE IF fault \/ CardinalityError THEN {}
       ELSE IF cctx # "live" THEN {<<"C04", "wrong-result-after-cancel">>}
       ELSE IF HReturned /\ hStatus.ctxerr THEN {<<"C04", "handler-context-error-not-translated">>}
       ELSE IF HReturned /\ hStatus.code # 0 THEN {<<"C02", "status-differs-from-handler">>}
       ELSE IF HandlerOK THEN {<<"C02", "error-but-handler-succeeded">>}
       ELSE {<<"C02", "error-fabricated-while-handler-running">>}

\* results of receives issued after the first terminal result
\* (a context status is reported because the context is done, not because of
\* how the call ended: a later io.EOF after it is judged like a first one --
\* success must be justified by the handler's OK and a complete response --
\* whereas io.EOF after any other error turns a failed call into a success)
ChkAfterTerminal(res) ==
  V(res.k # "nil", "C02", "message-after-final-status")
  \cup (IF cTerm.k = "err" /\ res.k = "eof"
          THEN IF IsCtxStatus(cTerm)
                 THEN IF RespStream THEN ChkTerminal(res, 0, RangeOf(cRecvd))
                      ELSE V(HandlerOK /\ ~fault, "C02", "eof-after-error")
                 ELSE {<<"C02", "eof-after-error">>}
          ELSE {})
  \cup V(~(cTerm.k \in {"eof","nil"} /\ res.k = "err") \/ IsCtxStatus(res) \/ ~RespStream,
         "C02", "error-after-success")

\* metadata views at a terminal result that is success or the handler's own
ViewsDue(res) ==
  \/ res.k = "nil"
  \/ (res.k = "eof" /\ RespStream)
  \/ (IsHandlerStatus(res) /\ ~IsCtxStatus(res))

ChkHdrView(h) == V(h \in hdrCand, "C03", "header-view")
ChkTrlView(t) == V(t = trlAcc, "C03", "trailer-view")

-----------------------------------------------------------------------------
(* Events.  Each Ev_X is the state update, each Chk_X the violations.      *)

Ev_Cancel(why) ==
  /\ cctx' = IF cctx = "live" THEN why ELSE cctx
  /\ UNCHANGED <<kind, tr, reqMd, fault, cSendStarted, cSendOk, closeSend,
          hRecvd, hRecvStarted, hSendStarted, hSendOk, cRecvd, cRecvStarted,
          cHdrStarted, hdrAcc, hdrSent, hdrCand, hPend, trlAcc, hState,
          hStatus, cTerm, winddown, hSawEOF>>

Ev_Winddown ==
  /\ winddown' = TRUE
  /\ UNCHANGED <<kind, tr, reqMd, cctx, fault, cSendStarted, cSendOk, closeSend,
          hRecvd, hRecvStarted, hSendStarted, hSendOk, cRecvd, cRecvStarted,
          cHdrStarted, hdrAcc, hdrSent, hdrCand, hPend, trlAcc, hState,
          hStatus, cTerm, hSawEOF>>

Ev_Fault ==
  /\ fault' = TRUE
  /\ UNCHANGED <<kind, tr, reqMd, cctx, cSendStarted, cSendOk, closeSend,
          hRecvd, hRecvStarted, hSendStarted, hSendOk, cRecvd, cRecvStarted,
          cHdrStarted, hdrAcc, hdrSent, hdrCand, hPend, trlAcc, hState,
          hStatus, cTerm, winddown, hSawEOF>>

(* ---- client, unary ---- *)
Ev_CInvokeCall ==
  /\ cSendStarted' = 1 /\ cSendOk' = {1} /\ closeSend' = TRUE
  /\ cRecvStarted' = 1
  /\ UNCHANGED <<kind, tr, reqMd, cctx, fault, hRecvd, hRecvStarted,
          hSendStarted, hSendOk, cRecvd, cHdrStarted, hdrAcc, hdrSent,
          hdrCand, hPend, trlAcc, hState, hStatus, cTerm, winddown, hSawEOF>>

Chk_CInvokeRet(res, msg, hdr, trl) ==
  ChkTerminal(res, IF res.k = "nil" THEN 1 ELSE 0, IF res.k = "nil" THEN {msg} ELSE {})
  \cup (IF res.k = "nil"
        THEN V(msg = 1 /\ hSendStarted >= 1, "C01", "unary-response-not-the-handlers")
        ELSE {})
  \cup (IF ViewsDue(res) /\ ~fault THEN ChkHdrView(hdr) \cup ChkTrlView(trl) ELSE {})

Ev_CInvokeRet(res, msg) ==
  /\ cTerm' = res
  /\ cRecvd' = IF res.k = "nil" THEN Append(cRecvd, msg) ELSE cRecvd
  /\ UNCHANGED <<kind, tr, reqMd, cctx, fault, cSendStarted, cSendOk, closeSend,
          hRecvd, hRecvStarted, hSendStarted, hSendOk, cRecvStarted,
          cHdrStarted, hdrAcc, hdrSent, hdrCand, hPend, trlAcc, hState,
          hStatus, winddown, hSawEOF>>

(* ---- client, streams ---- *)
Chk_CNewStreamRet(res) ==
  IF res.k = "nil" THEN {}
  ELSE V(IsCtxStatus(res) \/ fault, "C02", "stream-creation-failed")

Ev_CNewStreamRet(res) ==
  /\ cTerm' = IF res.k = "nil" THEN cTerm ELSE res
  /\ UNCHANGED <<kind, tr, reqMd, cctx, fault, cSendStarted, cSendOk, closeSend,
          hRecvd, hRecvStarted, hSendStarted, hSendOk, cRecvd, cRecvStarted,
          cHdrStarted, hdrAcc, hdrSent, hdrCand, hPend, trlAcc, hState,
          hStatus, winddown, hSawEOF>>

Ev_CSendCall(k) ==
  /\ cSendStarted' = k
  /\ UNCHANGED <<kind, tr, reqMd, cctx, fault, cSendOk, closeSend,
          hRecvd, hRecvStarted, hSendStarted, hSendOk, cRecvd, cRecvStarted,
          cHdrStarted, hdrAcc, hdrSent, hdrCand, hPend, trlAcc, hState,
          hStatus, cTerm, winddown, hSawEOF>>

\* C05: once the handler has finished sends return nil or io.EOF; while the
\* call is healthy a send never fails.  C20: at most K requests ahead of the
\* handler's receive operations (in-process only).
Chk_CSendRet(k, res) ==
  (IF res.k = "nil" \/ cctx # "live" \/ fault \/ closeSend THEN {}
   \* (io.EOF is also what a send gets once the client has been given the call's
   \* final result -- e.g. the cardinality error of a single-response method whose
   \* handler is still running -- as on the standard transport)
   ELSE IF res.k = "eof" THEN V(HReturned \/ cTerm.k # "none", "C05", "send-eof-while-handler-running")
   ELSE {<<"C05", "send-error-on-healthy-call">>})
  \cup (IF res.k = "nil" /\ tr = "inproc"
        THEN V(Cardinality(cSendOk) + 1 <= hRecvStarted + K, "C20", "request-sender-ran-ahead")
        ELSE {})

Ev_CSendRet(k, res) ==
  /\ cSendOk' = IF res.k = "nil" THEN cSendOk \cup {k} ELSE cSendOk
  /\ UNCHANGED <<kind, tr, reqMd, cctx, fault, cSendStarted, closeSend,
          hRecvd, hRecvStarted, hSendStarted, hSendOk, cRecvd, cRecvStarted,
          cHdrStarted, hdrAcc, hdrSent, hdrCand, hPend, trlAcc, hState,
          hStatus, cTerm, winddown, hSawEOF>>

Ev_CCloseSendCall ==
  /\ closeSend' = TRUE
  /\ UNCHANGED <<kind, tr, reqMd, cctx, fault, cSendStarted, cSendOk,
          hRecvd, hRecvStarted, hSendStarted, hSendOk, cRecvd, cRecvStarted,
          cHdrStarted, hdrAcc, hdrSent, hdrCand, hPend, trlAcc, hState,
          hStatus, cTerm, winddown, hSawEOF>>

Ev_CRecvCall ==
  /\ cRecvStarted' = cRecvStarted + 1
  /\ UNCHANGED <<kind, tr, reqMd, cctx, fault, cSendStarted, cSendOk, closeSend,
          hRecvd, hRecvStarted, hSendStarted, hSendOk, cRecvd,
          cHdrStarted, hdrAcc, hdrSent, hdrCand, hPend, trlAcc, hState,
          hStatus, cTerm, winddown, hSawEOF>>

\* a message obtained by the client (C01)
ChkClientMsg(msg) ==
  V(msg # -1, "C01", "cross-talk")
  \cup V(msg # 0, "C01", "message-altered-or-fabricated")
  \cup V(msg <= 0 \/ msg > LastOr0(cRecvd), "C01", "duplicate-or-reordered")
  \cup V(msg <= hSendStarted, "C01", "message-never-sent")

Chk_CRecvRet(res, msg) ==
  IF cTerm.k # "none" THEN ChkAfterTerminal(res)
  ELSE IF res.k = "nil" /\ RespStream THEN ChkClientMsg(msg)
  ELSE IF res.k = "nil" THEN ChkClientMsg(msg) \cup ChkTerminal(res, 1, RangeOf(cRecvd) \cup {msg})
  ELSE ChkTerminal(res, 0, RangeOf(cRecvd))

Ev_CRecvRet(res, msg) ==
  /\ cRecvd' = IF res.k = "nil" THEN Append(cRecvd, msg) ELSE cRecvd
  /\ cTerm' = IF cTerm.k = "none" /\ (res.k # "nil" \/ ~RespStream) THEN res ELSE cTerm
  /\ UNCHANGED <<kind, tr, reqMd, cctx, fault, cSendStarted, cSendOk, closeSend,
          hRecvd, hRecvStarted, hSendStarted, hSendOk, cRecvStarted,
          cHdrStarted, hdrAcc, hdrSent, hdrCand, hPend, trlAcc, hState,
          hStatus, winddown, hSawEOF>>

Ev_CHeaderCall ==
  /\ cHdrStarted' = cHdrStarted + 1
  /\ UNCHANGED <<kind, tr, reqMd, cctx, fault, cSendStarted, cSendOk, closeSend,
          hRecvd, hRecvStarted, hSendStarted, hSendOk, cRecvd, cRecvStarted,
          hdrAcc, hdrSent, hdrCand, hPend, trlAcc, hState,
          hStatus, cTerm, winddown, hSawEOF>>

\* Header() returning without error while the call is healthy must show one
\* of the views the handler can have sent; after a successful receive or a
\* final status that is the handler's own this holds even under cancellation.
Chk_CHeaderRet(res, hdr) ==
  IF res.k # "nil" THEN
     V(cctx # "live" \/ fault \/ (cTerm.k = "err"), "C03", "header-error-on-healthy-call")
  ELSE IF fault THEN {}
  ELSE IF cctx = "live" \/ Len(cRecvd) > 0 \/ ViewsDue(cTerm) THEN ChkHdrView(hdr)
  ELSE {}

Chk_CTrailerRet(trl) ==
  IF cTerm.k # "none" /\ ViewsDue(cTerm) /\ ~fault THEN ChkTrlView(trl) ELSE {}

(* ---- handler ---- *)
Chk_HStart(md) == V(md = reqMd, "C03", "request-metadata")

Ev_HStart ==
  /\ hState' = "running"
  /\ UNCHANGED <<kind, tr, reqMd, cctx, fault, cSendStarted, cSendOk, closeSend,
          hRecvd, hRecvStarted, hSendStarted, hSendOk, cRecvd, cRecvStarted,
          cHdrStarted, hdrAcc, hdrSent, hdrCand, hPend, trlAcc,
          hStatus, cTerm, winddown, hSawEOF>>

Ev_HRecvCall ==
  /\ hRecvStarted' = hRecvStarted + 1
  /\ hPend' = <<"recv", Cardinality(cSendOk), hdrSent, cTerm.k # "none">>
  /\ UNCHANGED <<kind, tr, reqMd, cctx, fault, cSendStarted, cSendOk, closeSend,
          hRecvd, hSendStarted, hSendOk, cRecvd, cRecvStarted,
          cHdrStarted, hdrAcc, hdrSent, hdrCand, trlAcc, hState,
          hStatus, cTerm, winddown, hSawEOF>>

ChkHandlerMsg(msg) ==
  V(msg # -1, "C01", "cross-talk")
  \cup V(msg # 0, "C01", "message-altered-or-fabricated")
  \cup V(msg <= 0 \/ msg > LastOr0(hRecvd), "C01", "duplicate-or-reordered")
  \cup V(msg <= cSendStarted, "C01", "message-never-sent")

\* C08 (HTTP server): a single-request method given two requests must fail
\* the handler's receive.  hPend[2] = requests fully sent when it started.
\* C06 (in-process unary): the handler's decode callback copies the caller's
\* request object; a decode that started after Invoke had returned to the
\* caller (hPend[4]) and succeeded has read memory the caller owns again.
Chk_HRecvRet(res, msg) ==
  IF res.k = "nil" THEN
       ChkHandlerMsg(msg)
       \cup V(~(kind = "unary" /\ tr = "inproc" /\ hPend # <<>> /\ hPend[4]), "C06", "request-read-after-return")
       \* ... and a request that arrives altered was read while its owner was
       \* using it again (the caller of the harness scribbles over its request
       \* as soon as Invoke has returned, and only then; the order of the two
       \* log lines proves nothing, the content does)
       \cup V(~(kind = "unary" /\ tr = "inproc" /\ msg = 0), "C06", "request-changed-under-the-handlers-copy")
       \cup V(~(tr = "http" /\ ~ReqStream /\ hPend # <<>> /\ hPend[2] >= 2), "C08", "second-request-accepted")
  ELSE IF res.k = "eof" THEN
       \* (once the context has ended the request stream is broken anyway and
       \* what a further receive reports is not constrained)
       \* (the HTTP server stream of a single-request method ends the request
       \* stream itself after the first receive, whatever its result)
       V(closeSend \/ cctx # "live" \/ (tr = "http" /\ ~ReqStream /\ hRecvStarted >= 2),
         "C01", "request-eof-without-closesend")
       \cup V(ReqComplete \/ ~ReqStream, "C01", "request-eof-with-missing-messages")
  ELSE {}

Ev_HRecvRet(res, msg) ==
  /\ hRecvd' = IF res.k = "nil" THEN Append(hRecvd, msg) ELSE hRecvd
  /\ hPend' = <<>>
  /\ hSawEOF' = (hSawEOF \/ res.k = "eof" \/ (res.k = "nil" /\ ~ReqStream /\ tr = "http"))
  /\ UNCHANGED <<kind, tr, reqMd, cctx, fault, cSendStarted, cSendOk, closeSend,
          hRecvStarted, hSendStarted, hSendOk, cRecvd, cRecvStarted,
          cHdrStarted, hdrAcc, hdrSent, hdrCand, trlAcc, hState,
          hStatus, cTerm, winddown>>

\* a point at which the pending headers may go out with view v
MaybeSend(v) ==
  /\ hdrCand' = IF hdrSent = "yes" THEN hdrCand ELSE hdrCand \cup {v}
  /\ hdrSent' = IF hdrSent = "no" THEN "maybe" ELSE hdrSent

\* a point at which the headers have definitely gone out with view v (if
\* they had not before)
DefSend(v, before) ==
  /\ hdrCand' = IF before = "no" THEN {v} ELSE IF before = "maybe" THEN hdrCand \cup {v} ELSE hdrCand
  /\ hdrSent' = "yes"

Ev_HSendCall(k) ==
  /\ hSendStarted' = k
  /\ hPend' = <<"send", k, hdrSent>>
  /\ MaybeSend(hdrAcc)
  /\ UNCHANGED <<kind, tr, reqMd, cctx, fault, cSendStarted, cSendOk, closeSend,
          hRecvd, hRecvStarted, hSendOk, cRecvd, cRecvStarted,
          cHdrStarted, hdrAcc, trlAcc, hState, hStatus, cTerm, winddown, hSawEOF>>

\* C20: responses whose send returned, against what the client can have
\* consumed: one data frame per receive operation (two for single-response
\* kinds, which read ahead), one for the first Header(), K buffered.  Once
\* the context is done every Header() may take a frame and drop it (the
\* frame is read, then the context is looked at), not only the first.
Chk_HSendRet(k, res) ==
  (IF res.k = "nil" /\ tr = "inproc"
   THEN V(Cardinality(hSendOk) + 1 <= cRecvStarted * (IF RespStream THEN 1 ELSE 2)
                                        + (IF cctx = "live" THEN (IF cHdrStarted > 0 THEN 1 ELSE 0) ELSE cHdrStarted) + K,
          "C20", "response-sender-ran-ahead")
   ELSE {})

Ev_HSendRet(k, res) ==
  /\ hSendOk' = IF res.k = "nil" THEN hSendOk \cup {k} ELSE hSendOk
  /\ IF res.k = "nil" /\ hPend # <<>>
       THEN DefSend(hdrAcc, hPend[3])
       ELSE UNCHANGED <<hdrCand, hdrSent>>
  /\ hPend' = <<>>
  /\ UNCHANGED <<kind, tr, reqMd, cctx, fault, cSendStarted, cSendOk, closeSend,
          hRecvd, hRecvStarted, hSendStarted, cRecvd, cRecvStarted,
          cHdrStarted, hdrAcc, trlAcc, hState, hStatus, cTerm, winddown, hSawEOF>>

\* operation number 0 stands for a header / trailer operation with EMPTY
\* metadata: it changes the state machine (headers sent) but no view
Ext(acc, i) == IF i = 0 THEN acc ELSE Append(acc, i)

Ev_HSetHeaderCall(i) ==
  /\ hPend' = <<"sethdr", i, hdrSent>>
  /\ UNCHANGED <<kind, tr, reqMd, cctx, fault, cSendStarted, cSendOk, closeSend,
          hRecvd, hRecvStarted, hSendStarted, hSendOk, cRecvd, cRecvStarted,
          cHdrStarted, hdrAcc, hdrSent, hdrCand, trlAcc, hState,
          hStatus, cTerm, winddown, hSawEOF>>

\* (SetHeader with empty metadata -- number 0 -- sets nothing: like the standard
\* transport, whose grpc.SetHeader returns nil for it at once, it may be
\* accepted at any time)
Chk_HSetHeaderRet(i, ok) ==
  IF ok THEN V(hdrSent # "yes" \/ i = 0, "C03", "setheader-accepted-after-headers-sent")
  ELSE V(~(hdrSent = "no" /\ cctx = "live" /\ ~fault /\ ~winddown), "C03", "setheader-refused-before-send")

Ev_HSetHeaderRet(i, ok) ==
  /\ hdrAcc' = IF ok THEN Ext(hdrAcc, i) ELSE hdrAcc
  /\ hdrCand' = IF ok /\ hdrSent = "maybe" THEN hdrCand \cup {Ext(hdrAcc, i)} ELSE hdrCand
  /\ hPend' = <<>>
  /\ UNCHANGED <<kind, tr, reqMd, cctx, fault, cSendStarted, cSendOk, closeSend,
          hRecvd, hRecvStarted, hSendStarted, hSendOk, cRecvd, cRecvStarted,
          cHdrStarted, hdrSent, trlAcc, hState, hStatus, cTerm, winddown, hSawEOF>>

Ev_HSendHeaderCall(i) ==
  /\ hPend' = <<"sendhdr", i, hdrSent>>
  /\ MaybeSend(Ext(hdrAcc, i))
  /\ UNCHANGED <<kind, tr, reqMd, cctx, fault, cSendStarted, cSendOk, closeSend,
          hRecvd, hRecvStarted, hSendStarted, hSendOk, cRecvd, cRecvStarted,
          cHdrStarted, hdrAcc, trlAcc, hState, hStatus, cTerm, winddown, hSawEOF>>

Chk_HSendHeaderRet(i, ok) ==
  IF hPend = <<>> THEN {}
  ELSE IF ok THEN V(hPend[3] # "yes", "C03", "sendheader-accepted-after-headers-sent")
  ELSE V(~(hPend[3] = "no" /\ cctx = "live" /\ ~fault /\ ~winddown), "C03", "sendheader-refused-before-send")

Ev_HSendHeaderRet(i, ok) ==
  /\ hdrAcc' = IF ok THEN Ext(hdrAcc, i) ELSE hdrAcc
  /\ IF ok /\ hPend # <<>>
       THEN DefSend(Ext(hdrAcc, i), hPend[3])
       ELSE UNCHANGED <<hdrCand, hdrSent>>
  /\ hPend' = <<>>
  /\ UNCHANGED <<kind, tr, reqMd, cctx, fault, cSendStarted, cSendOk, closeSend,
          hRecvd, hRecvStarted, hSendStarted, hSendOk, cRecvd, cRecvStarted,
          cHdrStarted, trlAcc, hState, hStatus, cTerm, winddown, hSawEOF>>

\* SendHeader as one atomic step (used by models in which it cannot block)
Chk_HSendHeaderAtomic(i, ok) ==
  IF ok THEN V(hdrSent # "yes", "C03", "sendheader-accepted-after-headers-sent")
  ELSE V(~(hdrSent = "no" /\ cctx = "live" /\ ~fault /\ ~winddown), "C03", "sendheader-refused-before-send")

Ev_HSendHeaderAtomic(i, ok) ==
  /\ hdrAcc' = IF ok THEN Ext(hdrAcc, i) ELSE hdrAcc
  /\ IF ok THEN DefSend(Ext(hdrAcc, i), hdrSent) ELSE UNCHANGED <<hdrCand, hdrSent>>
  /\ hPend' = <<>>
  /\ UNCHANGED <<kind, tr, reqMd, cctx, fault, cSendStarted, cSendOk, closeSend,
          hRecvd, hRecvStarted, hSendStarted, hSendOk, cRecvd, cRecvStarted,
          cHdrStarted, trlAcc, hState, hStatus, cTerm, winddown, hSawEOF>>

Ev_HSetTrailerRet(i, ok) ==
  /\ trlAcc' = IF ok THEN Ext(trlAcc, i) ELSE trlAcc
  /\ UNCHANGED <<kind, tr, reqMd, cctx, fault, cSendStarted, cSendOk, closeSend,
          hRecvd, hRecvStarted, hSendStarted, hSendOk, cRecvd, cRecvStarted,
          cHdrStarted, hdrAcc, hdrSent, hdrCand, hPend, hState,
          hStatus, cTerm, winddown, hSawEOF>>

Chk_HSetTrailerRet(i, ok) ==
  V(ok \/ cctx # "live" \/ fault \/ winddown, "C03", "settrailer-refused-while-running")

\* the handler function is about to return: st = its status, nresp = 1 if a
\* unary handler returns a response message (which then counts as sent)
Ev_HReturn(st, nresp) ==
  /\ hState' = "returned"
  /\ hStatus' = st
  /\ hSendStarted' = IF nresp = 1 THEN hSendStarted + 1 ELSE hSendStarted
  /\ hSendOk' = IF nresp = 1 THEN hSendOk \cup {hSendStarted + 1} ELSE hSendOk
  /\ DefSend(hdrAcc, hdrSent)
  /\ hPend' = <<>>
  /\ UNCHANGED <<kind, tr, reqMd, cctx, fault, cSendStarted, cSendOk, closeSend,
          hRecvd, hRecvStarted, cRecvd, cRecvStarted,
          cHdrStarted, hdrAcc, trlAcc, cTerm, winddown, hSawEOF>>

\* C04: the handler waited for its context to end and gave up
Chk_HCtxWait(done) ==
  V(done \/ cctx = "live", "C04", "handler-context-not-cancelled")

(* ---- observations of the scheduler ---- *)

\* blocked: sequence of <<actor, op>> still parked inside the library when
\* every goroutine of the process is parked.  Over HTTP/1.1 net/http shows a
\* reply only once the request body has ended, so receive-side waits before
\* CloseSend are the environment's, not the library's.
EnvExcused(b) ==
  /\ cctx = "live"
  /\ \/ (tr = "http" /\ ~closeSend /\ b[1] = "c" /\ b[2] \in {"Recv", "Header", "Invoke"})
     \/ (tr = "http" /\ ~closeSend /\ b[1] = "h" /\ b[2] \in {"Send", "SendHeader"})

\* (C20's own clause: a sender on an in-process stream blocks "until the peer
\* receives, the peer finishes, or the context ends" -- a send still parked
\* at rest after that is reported for C20 as well)
Chk_Quiesce(blocked) ==
  IF cctx = "live" /\ ~HReturned THEN {}
  ELSE UNION { IF EnvExcused(blocked[i]) THEN {}
               ELSE {<<IF cctx # "live" /\ blocked[i][1] = "c" /\ blocked[i][2] \in {"Recv", "Invoke"}
                       THEN "C04" ELSE "C05",
                       "blocked-after-end">>}
                    \cup (IF tr = "inproc" /\ blocked[i][2] = "Send"
                          THEN {<<"C20", "sender-not-released">>} ELSE {}) : i \in 1..Len(blocked) }

Chk_Panic == {<<"C05", "panic">>}
Chk_Census(n) == V(n = 0, "C05", "goroutine-leak")
\* census taken once the caller holds the final result of every call of the run,
\* at rest, before the harness ends the contexts: goroutines of the library
\* that are not running user code (handler, caller)
Chk_CensusT(n) == V(n = 0, "C05", "goroutine-left-after-completion")

=============================================================================
