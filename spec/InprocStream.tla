---------------------------- MODULE InprocStream ----------------------------
(***************************************************************************)
(* L1: implementation-shaped model of one streaming RPC over               *)
(* inprocgrpc.Channel (inprocgrpc/in_process.go: NewStream,                *)
(* inProcessServerStream, inProcessClientStream, readMessage,              *)
(* writeMessage).  One action per critical section / blocking point of the *)
(* Go code; a Go `select` is a nondeterministic choice among its ready     *)
(* cases; the capacity-1 channels are sequences; the mutexes have owners;  *)
(* the contexts are monotone flags.  The client's and the handler's        *)
(* programs are part of the state: every thread picks its next operation   *)
(* nondeterministically while its budget lasts, so one TLC run covers all  *)
(* bounded scripts x all schedules x all cancellation instants.            *)
(*                                                                         *)
(* The module EXTENDS GrpcCall: every API-level step (call and return of   *)
(* an operation) also performs the L0 event Ev_X and adds Chk_X to lviol.  *)
(* `lviol \subseteq Known` is the refinement check L1 => L0: the model of  *)
(* the code never takes an API step L0 forbids, except for the listed      *)
(* deviations.                                                             *)
(***************************************************************************)
EXTENDS GrpcCall

CONSTANTS
  ReqStreamC, RespStreamC,   \* the method's streaming flags
  NS, NR, NH,                \* operation budgets: sender, receiver, handler
  MaxCancel,                 \* 0 or 1
  CancelKinds,               \* subset of {"cancel", "deadline"}
  Cap,                       \* channel capacity (1 in the code)
  MaxHdr, MaxTrl,            \* distinct header / trailer operations
  Statuses,                  \* handler return statuses, subset of {0, 1, 2}
  Closers,                   \* threads allowed to CloseSend: subset of {"cs", "cs2"}
  Known                      \* known deviations: set of <<prop, why>>

VARIABLES
  req, reqClosed, resp, respClosed,
  svrDone, svrExit, sprop,
  sst, shdr, strl, smu,
  cst, clast, chdr, ctrl, respMu,
  reqMu, sendClosed,
  pc, tmp, probe, got, fst,
  bud, ncancel, nhdr, ntrl,
  panicked, lviol,
  ev           \* the API event the last step emitted (NoEv for internal steps); binds traces, hidden by a VIEW otherwise

lvars == <<req, reqClosed, resp, respClosed, svrDone, svrExit, sprop, sst, shdr, strl, smu,
           cst, clast, chdr, ctrl, respMu, reqMu, sendClosed, pc, tmp, probe, got, fst,
           bud, ncancel, nhdr, ntrl, panicked, lviol>>
allvars == <<vars, lvars, ev>>
\* exhaustive runs use this view: ev does not influence any later step
ViewNoEv == <<vars, lvars>>

Threads == {"cs", "cs2", "cr", "h"}

NoFrame == [t |-> "N", v |-> 0, w |-> <<>>]
Closed  == [t |-> "X", v |-> 0, w |-> <<>>]
D(k) == [t |-> "D", v |-> k, w |-> <<>>]
H(s) == [t |-> "H", v |-> 0, w |-> s]
T(s) == [t |-> "T", v |-> 0, w |-> s]
E(s) == [t |-> "E", v |-> s, w |-> <<>>]

\* status id -> gRPC code: 1 is an ordinary error (Internal), 2 stands for a
\* handler that returns io.EOF (Unknown for the standard server; finish()
\* converts it with handlerError before the error frame is written)
CodeOf(s) == IF s = 0 THEN 0 ELSE IF s = 1 THEN 13 ELSE 2

RNil == [k |-> "nil", code |-> 0, st |-> 0, raw |-> FALSE]
REof == [k |-> "eof", code |-> -1, st |-> 0, raw |-> TRUE]
RCtx(raw) == [k |-> "err", code |-> CtxCode, st |-> 0, raw |-> raw]
RSt(s) == [k |-> "err", code |-> CodeOf(s), st |-> s, raw |-> FALSE]
RLib == [k |-> "err", code |-> 13, st |-> 0, raw |-> FALSE]   \* library-made Internal
RMisuse == [k |-> "err", code |-> 2, st |-> 0, raw |-> TRUE]  \* "send closed"
StRec(s) == [st |-> s, code |-> CodeOf(s), ctxerr |-> FALSE]

NoEv == [n |-> "", a |-> 0, k |-> "", cat |-> "", m |-> 0, v |-> <<>>]
\* category of an error result: context status, handler's status, library-made, misuse
Cat(r) == IF r.k # "err" THEN ""
          ELSE IF r.st > 0 THEN "hst"
          ELSE IF r.code = 13 THEN "lib"
          ELSE IF r.code = 2 /\ r.raw THEN "misuse"
          ELSE "ctx"
Emit(n, a, r, m, v) == ev' = [n |-> n, a |-> a, k |-> r.k, cat |-> Cat(r), m |-> m, v |-> v]
Quiet == ev' = NoEv

KindC == IF ReqStreamC /\ RespStreamC THEN "bidi"
         ELSE IF ReqStreamC THEN "cstream"
         ELSE IF RespStreamC THEN "sstream" ELSE "unary"

CDone == cctx # "live"              \* the client's context
\* The server stream's context hangs off the caller's through noValuesContext,
\* a foreign context type, so the context package propagates a cancellation
\* to it from a goroutine: the server side sees it a little later (sprop).
SDone == sprop \/ svrExit

LInit ==
  /\ InitH(KindC, "inproc", <<>>, "running")
  /\ req = <<>> /\ reqClosed = FALSE /\ resp = <<>> /\ respClosed = FALSE
  /\ svrDone = FALSE /\ svrExit = FALSE /\ sprop = FALSE
  /\ sst = "H" /\ shdr = <<>> /\ strl = <<>> /\ smu = ""
  /\ cst = "H" /\ clast = NoFrame /\ chdr = <<>> /\ ctrl = <<>> /\ respMu = ""
  /\ reqMu = "" /\ sendClosed = FALSE
  /\ pc = [t \in Threads |-> "idle"]
  /\ tmp = [t \in Threads |-> NoFrame]
  /\ probe = FALSE /\ got = 0 /\ fst = 0
  /\ bud = [t \in Threads |-> CASE t = "cs" -> NS [] t = "cs2" -> 1 [] t = "cr" -> NR [] OTHER -> NH]
  /\ ncancel = 0 /\ nhdr = 0 /\ ntrl = 0
  /\ panicked = FALSE /\ lviol = {}
  /\ ev = NoEv

\* the handler is running from the start (HStart is the first L0 event)
Init == LInit

Goto(t, p) == pc' = [pc EXCEPT ![t] = p]
Viol(S) == lviol' = lviol \cup S
NoViol == lviol' = lviol

-----------------------------------------------------------------------------
(* client: SendMsg (thread cs) *)

StartSend ==
  /\ pc["cs"] = "idle" /\ bud["cs"] > 0
  /\ bud' = [bud EXCEPT !["cs"] = @ - 1]
  /\ Goto("cs", "s1")
  /\ Ev_CSendCall(cSendStarted + 1)
  /\ NoViol /\ Emit("CSendCall", cSendStarted + 1, RNil, 0, <<>>)
  /\ UNCHANGED <<req, reqClosed, resp, respClosed, svrDone, svrExit, sprop, sst, shdr, strl, smu,
                 cst, clast, chdr, ctrl, respMu, reqMu, sendClosed, tmp, probe, got, fst,
                 ncancel, nhdr, ntrl, panicked>>

\* s.reqMu.Lock(); if s.sendClosed { return "send closed" }
SendLock ==
  /\ pc["cs"] = "s1" /\ reqMu = ""
  /\ IF sendClosed
       THEN /\ Goto("cs", "idle") /\ UNCHANGED reqMu
            /\ Ev_CSendRet(cSendStarted, RMisuse)
            /\ Viol(Chk_CSendRet(cSendStarted, RMisuse)) /\ Emit("CSendRet", cSendStarted, RMisuse, 0, <<>>)
       ELSE /\ Goto("cs", "s2") /\ reqMu' = "cs"
            /\ UNCHANGED vars /\ NoViol /\ Quiet
  /\ UNCHANGED <<req, reqClosed, resp, respClosed, svrDone, svrExit, sprop, sst, shdr, strl, smu,
                 cst, clast, chdr, ctrl, respMu, sendClosed, tmp, probe, got, fst,
                 bud, ncancel, nhdr, ntrl, panicked>>

\* writeMessage(s.ctx, s.svrCtx, s.requests, frame): three-way select
SendSelect ==
  /\ pc["cs"] = "s2"
  /\ \/ /\ Len(req) < Cap                       \* case ch <- m
        /\ req' = Append(req, D(cSendStarted))
        /\ panicked' = (panicked \/ reqClosed)
        /\ Goto("cs", "s3")
        /\ UNCHANGED <<reqMu, vars>> /\ NoViol /\ Quiet
     \/ /\ CDone                                \* case <-ctx.Done()
        /\ Goto("cs", "s3")
        /\ UNCHANGED <<req, panicked, reqMu, vars>> /\ NoViol /\ Quiet
     \/ /\ (svrDone \/ SDone)                   \* case <-remote: return io.EOF (svrDoneCtx is a
                                                \* child of the server stream's context)
        /\ Goto("cs", "idle") /\ reqMu' = ""
        /\ Ev_CSendRet(cSendStarted, REof)
        /\ Viol(Chk_CSendRet(cSendStarted, REof)) /\ Emit("CSendRet", cSendStarted, REof, 0, <<>>)
        /\ UNCHANGED <<req, panicked>>
  /\ UNCHANGED <<reqClosed, resp, respClosed, svrDone, svrExit, sprop, sst, shdr, strl, smu,
                 cst, clast, chdr, ctrl, respMu, sendClosed, tmp, probe, got, fst,
                 bud, ncancel, nhdr, ntrl>>

\* return ctx.Err()
SendRet ==
  /\ pc["cs"] = "s3"
  /\ Goto("cs", "idle") /\ reqMu' = ""
  /\ LET r == IF CDone THEN RCtx(TRUE) ELSE RNil IN
       /\ Ev_CSendRet(cSendStarted, r)
       /\ Viol(Chk_CSendRet(cSendStarted, r)) /\ Emit("CSendRet", cSendStarted, r, 0, <<>>)
  /\ UNCHANGED <<req, reqClosed, resp, respClosed, svrDone, svrExit, sprop, sst, shdr, strl, smu,
                 cst, clast, chdr, ctrl, respMu, sendClosed, tmp, probe, got, fst,
                 bud, ncancel, nhdr, ntrl, panicked>>

(* client: CloseSend (thread cs or cs2) *)
StartClose(t) ==
  /\ t \in Closers /\ pc[t] = "idle" /\ bud[t] > 0
  /\ bud' = [bud EXCEPT ![t] = @ - 1]
  /\ Goto(t, "c1")
  /\ Ev_CCloseSendCall /\ NoViol /\ Emit("CCloseSendCall", 0, RNil, 0, <<>>)
  /\ UNCHANGED <<req, reqClosed, resp, respClosed, svrDone, svrExit, sprop, sst, shdr, strl, smu,
                 cst, clast, chdr, ctrl, respMu, reqMu, sendClosed, tmp, probe, got, fst,
                 ncancel, nhdr, ntrl, panicked>>

CloseDo(t) ==
  /\ pc[t] = "c1" /\ reqMu = ""
  /\ Goto(t, "idle")
  /\ IF sendClosed THEN UNCHANGED <<reqClosed, sendClosed, panicked>>
     ELSE /\ reqClosed' = TRUE /\ sendClosed' = TRUE
          /\ panicked' = (panicked \/ reqClosed)
  /\ UNCHANGED vars /\ NoViol /\ Emit("CCloseSendRet", 0, RNil, 0, <<>>)
  /\ UNCHANGED <<req, resp, respClosed, svrDone, svrExit, sprop, sst, shdr, strl, smu,
                 cst, clast, chdr, ctrl, respMu, reqMu, tmp, probe, got, fst,
                 bud, ncancel, nhdr, ntrl>>

-----------------------------------------------------------------------------
(* handler: RecvMsg *)

HRunning == hState = "running" /\ pc["h"] = "idle"

StartHRecv ==
  /\ HRunning /\ bud["h"] > 0
  /\ bud' = [bud EXCEPT !["h"] = @ - 1]
  /\ Goto("h", "hr1")
  /\ Ev_HRecvCall /\ NoViol /\ Emit("HRecvCall", 0, RNil, 0, <<>>)
  /\ UNCHANGED <<req, reqClosed, resp, respClosed, svrDone, svrExit, sprop, sst, shdr, strl, smu,
                 cst, clast, chdr, ctrl, respMu, reqMu, sendClosed, tmp, probe, got, fst,
                 ncancel, nhdr, ntrl, panicked>>

\* readMessage(s.ctx, s.requests): select
HRecvSelect ==
  /\ pc["h"] = "hr1"
  /\ \/ /\ req # <<>>
        /\ tmp' = [tmp EXCEPT !["h"] = Head(req)] /\ req' = Tail(req)
        /\ Goto("h", "hr2") /\ UNCHANGED vars /\ NoViol /\ Quiet
     \/ /\ req = <<>> /\ reqClosed
        /\ tmp' = [tmp EXCEPT !["h"] = Closed] /\ UNCHANGED req
        /\ Goto("h", "hr2") /\ UNCHANGED vars /\ NoViol /\ Quiet
     \/ /\ SDone
        /\ Goto("h", "idle") /\ UNCHANGED <<req, tmp>>
        /\ Ev_HRecvRet(RCtx(TRUE), 0) /\ Viol(Chk_HRecvRet(RCtx(TRUE), 0)) /\ Emit("HRecvRet", 0, RCtx(TRUE), 0, <<>>)
  /\ UNCHANGED <<reqClosed, resp, respClosed, svrDone, svrExit, sprop, sst, shdr, strl, smu,
                 cst, clast, chdr, ctrl, respMu, reqMu, sendClosed, probe, got, fst,
                 bud, ncancel, nhdr, ntrl, panicked>>

\* if err := ctx.Err(); err != nil { return err }; if !ok { return io.EOF }
HRecvCheck ==
  /\ pc["h"] = "hr2"
  /\ Goto("h", "idle")
  /\ tmp' = [tmp EXCEPT !["h"] = NoFrame]
  /\ LET f == tmp["h"]
         r == IF SDone THEN RCtx(TRUE) ELSE IF f.t = "X" THEN REof ELSE RNil
         m == IF r.k = "nil" THEN f.v ELSE 0 IN
       /\ Ev_HRecvRet(r, m) /\ Viol(Chk_HRecvRet(r, m)) /\ Emit("HRecvRet", 0, r, m, <<>>)
  /\ UNCHANGED <<req, reqClosed, resp, respClosed, svrDone, svrExit, sprop, sst, shdr, strl, smu,
                 cst, clast, chdr, ctrl, respMu, reqMu, sendClosed, probe, got, fst,
                 bud, ncancel, nhdr, ntrl, panicked>>

(* handler: SendMsg *)
StartHSend ==
  /\ HRunning /\ bud["h"] > 0
  /\ bud' = [bud EXCEPT !["h"] = @ - 1]
  /\ Goto("h", "hs1")
  /\ Ev_HSendCall(hSendStarted + 1) /\ NoViol /\ Emit("HSendCall", hSendStarted + 1, RNil, 0, <<>>)
  /\ UNCHANGED <<req, reqClosed, resp, respClosed, svrDone, svrExit, sprop, sst, shdr, strl, smu,
                 cst, clast, chdr, ctrl, respMu, reqMu, sendClosed, tmp, probe, got, fst,
                 ncancel, nhdr, ntrl, panicked>>

\* s.mu.Lock(); if s.ctx.Err() != nil || s.state == closed { return io.EOF }
HSendLock ==
  /\ pc["h"] = "hs1" /\ smu = ""
  /\ IF SDone \/ sst = "C"
       THEN /\ Goto("h", "idle") /\ UNCHANGED <<smu, sst>>
            /\ Ev_HSendRet(hSendStarted, REof) /\ Viol(Chk_HSendRet(hSendStarted, REof)) /\ Emit("HSendRet", hSendStarted, REof, 0, <<>>)
       ELSE /\ smu' = "h"
            /\ IF sst = "H" /\ shdr # <<>> THEN Goto("h", "hs3") /\ UNCHANGED sst
               ELSE Goto("h", "hs5") /\ sst' = "M"
            /\ UNCHANGED vars /\ NoViol /\ Quiet
  /\ UNCHANGED <<req, reqClosed, resp, respClosed, svrDone, svrExit, sprop, shdr, strl,
                 cst, clast, chdr, ctrl, respMu, reqMu, sendClosed, tmp, probe, got, fst,
                 bud, ncancel, nhdr, ntrl, panicked>>

\* sendHeadersLocked: writeMessage(s.ctx, nil, s.responses, headers): select
HdrSelect(t, from, to) ==
  /\ pc[t] = from
  /\ \/ /\ Len(resp) < Cap
        /\ resp' = Append(resp, H(shdr))
        /\ panicked' = (panicked \/ respClosed)
     \/ /\ SDone /\ UNCHANGED <<resp, panicked>>
  /\ Goto(t, to)
  /\ UNCHANGED vars /\ NoViol /\ Quiet
  /\ UNCHANGED <<req, reqClosed, respClosed, svrDone, svrExit, sprop, sst, shdr, strl, smu,
                 cst, clast, chdr, ctrl, respMu, reqMu, sendClosed, tmp, probe, got, fst,
                 bud, ncancel, nhdr, ntrl>>

HSendHdrSelect == HdrSelect("h", "hs3", "hs4")

\* return ctx.Err() of the header write; on success headers = nil, state = messages
HSendHdrRet ==
  /\ pc["h"] = "hs4"
  /\ IF SDone
       THEN /\ Goto("h", "idle") /\ smu' = "" /\ UNCHANGED <<shdr, sst>>
            /\ Ev_HSendRet(hSendStarted, RCtx(TRUE)) /\ Viol(Chk_HSendRet(hSendStarted, RCtx(TRUE))) /\ Emit("HSendRet", hSendStarted, RCtx(TRUE), 0, <<>>)
       ELSE /\ Goto("h", "hs5") /\ shdr' = <<>> /\ sst' = "M" /\ UNCHANGED smu
            /\ UNCHANGED vars /\ NoViol /\ Quiet
  /\ UNCHANGED <<req, reqClosed, resp, respClosed, svrDone, svrExit, sprop, strl,
                 cst, clast, chdr, ctrl, respMu, reqMu, sendClosed, tmp, probe, got, fst,
                 bud, ncancel, nhdr, ntrl, panicked>>

HSendDataSelect ==
  /\ pc["h"] = "hs5"
  /\ \/ /\ Len(resp) < Cap
        /\ resp' = Append(resp, D(hSendStarted))
        /\ panicked' = (panicked \/ respClosed)
     \/ /\ SDone /\ UNCHANGED <<resp, panicked>>
  /\ Goto("h", "hs6")
  /\ UNCHANGED vars /\ NoViol /\ Quiet
  /\ UNCHANGED <<req, reqClosed, respClosed, svrDone, svrExit, sprop, sst, shdr, strl, smu,
                 cst, clast, chdr, ctrl, respMu, reqMu, sendClosed, tmp, probe, got, fst,
                 bud, ncancel, nhdr, ntrl>>

HSendRet ==
  /\ pc["h"] = "hs6"
  /\ Goto("h", "idle") /\ smu' = ""
  /\ LET r == IF SDone THEN RCtx(TRUE) ELSE RNil IN
       Ev_HSendRet(hSendStarted, r) /\ Viol(Chk_HSendRet(hSendStarted, r)) /\ Emit("HSendRet", hSendStarted, r, 0, <<>>)
  /\ UNCHANGED <<req, reqClosed, resp, respClosed, svrDone, svrExit, sprop, sst, shdr, strl,
                 cst, clast, chdr, ctrl, respMu, reqMu, sendClosed, tmp, probe, got, fst,
                 bud, ncancel, nhdr, ntrl, panicked>>

(* handler: SetHeader / SendHeader / SetTrailer *)
StartSetHeader ==
  /\ HRunning /\ bud["h"] > 0 /\ nhdr < MaxHdr
  /\ bud' = [bud EXCEPT !["h"] = @ - 1] /\ nhdr' = nhdr + 1
  /\ Goto("h", "sh1")
  /\ Ev_HSetHeaderCall(nhdr + 1) /\ NoViol /\ Emit("HSetHeaderCall", nhdr + 1, RNil, 0, <<>>)
  /\ UNCHANGED <<req, reqClosed, resp, respClosed, svrDone, svrExit, sprop, sst, shdr, strl, smu,
                 cst, clast, chdr, ctrl, respMu, reqMu, sendClosed, tmp, probe, got, fst,
                 ncancel, ntrl, panicked>>

SetHeaderDo ==
  /\ pc["h"] = "sh1" /\ smu = ""
  /\ Goto("h", "idle")
  /\ LET ok == sst = "H" IN
       /\ shdr' = IF ok THEN Append(shdr, nhdr) ELSE shdr
       /\ Ev_HSetHeaderRet(nhdr, ok) /\ Viol(Chk_HSetHeaderRet(nhdr, ok)) /\ Emit("HSetHeaderRet", nhdr, IF ok THEN RNil ELSE RMisuse, 0, <<>>)
  /\ UNCHANGED <<req, reqClosed, resp, respClosed, svrDone, svrExit, sprop, sst, strl, smu,
                 cst, clast, chdr, ctrl, respMu, reqMu, sendClosed, tmp, probe, got, fst,
                 bud, ncancel, nhdr, ntrl, panicked>>

StartSendHeader ==
  /\ HRunning /\ bud["h"] > 0 /\ nhdr < MaxHdr
  /\ bud' = [bud EXCEPT !["h"] = @ - 1] /\ nhdr' = nhdr + 1
  /\ Goto("h", "dh1")
  /\ Ev_HSendHeaderCall(nhdr + 1) /\ NoViol /\ Emit("HSendHeaderCall", nhdr + 1, RNil, 0, <<>>)
  /\ UNCHANGED <<req, reqClosed, resp, respClosed, svrDone, svrExit, sprop, sst, shdr, strl, smu,
                 cst, clast, chdr, ctrl, respMu, reqMu, sendClosed, tmp, probe, got, fst,
                 ncancel, ntrl, panicked>>

SendHeaderLock ==
  /\ pc["h"] = "dh1" /\ smu = ""
  /\ IF sst # "H"
       THEN /\ Goto("h", "idle") /\ UNCHANGED <<smu, shdr>>
            /\ Ev_HSendHeaderRet(nhdr, FALSE) /\ Viol(Chk_HSendHeaderRet(nhdr, FALSE)) /\ Emit("HSendHeaderRet", nhdr, RMisuse, 0, <<>>)
       ELSE /\ Goto("h", "dh2") /\ smu' = "h" /\ shdr' = Append(shdr, nhdr)
            /\ UNCHANGED vars /\ NoViol /\ Quiet
  /\ UNCHANGED <<req, reqClosed, resp, respClosed, svrDone, svrExit, sprop, sst, strl,
                 cst, clast, chdr, ctrl, respMu, reqMu, sendClosed, tmp, probe, got, fst,
                 bud, ncancel, nhdr, ntrl, panicked>>

SendHeaderSelect == HdrSelect("h", "dh2", "dh3")

SendHeaderRet ==
  /\ pc["h"] = "dh3"
  /\ Goto("h", "idle") /\ smu' = ""
  /\ LET ok == ~SDone IN
       /\ shdr' = IF ok THEN <<>> ELSE shdr
       /\ sst' = IF ok THEN "M" ELSE sst
       /\ Ev_HSendHeaderRet(nhdr, ok) /\ Viol(Chk_HSendHeaderRet(nhdr, ok)) /\ Emit("HSendHeaderRet", nhdr, IF ok THEN RNil ELSE RMisuse, 0, <<>>)
  /\ UNCHANGED <<req, reqClosed, resp, respClosed, svrDone, svrExit, sprop, strl,
                 cst, clast, chdr, ctrl, respMu, reqMu, sendClosed, tmp, probe, got, fst,
                 bud, ncancel, nhdr, ntrl, panicked>>

\* ---- the same operations with EMPTY metadata (operation number 0): nothing is
\* added to the pending headers, but SendHeader still sends them
StartSetHeaderE ==
  /\ HRunning /\ bud["h"] > 0
  /\ bud' = [bud EXCEPT !["h"] = @ - 1]
  /\ Goto("h", "she1")
  /\ Ev_HSetHeaderCall(0) /\ NoViol /\ Emit("HSetHeaderCall", 0, RNil, 0, <<>>)
  /\ UNCHANGED <<req, reqClosed, resp, respClosed, svrDone, svrExit, sprop, sst, shdr, strl, smu,
                 cst, clast, chdr, ctrl, respMu, reqMu, sendClosed, tmp, probe, got, fst,
                 ncancel, nhdr, ntrl, panicked>>

SetHeaderDoE ==
  /\ pc["h"] = "she1" /\ smu = ""
  /\ Goto("h", "idle")
  \* (the stream's own SetHeader refuses after the headers were sent; the
  \* helper grpc.SetHeader(ctx, md) returns nil for empty metadata at once)
  /\ \E ok \in (IF sst = "H" THEN {TRUE} ELSE BOOLEAN) :
       Ev_HSetHeaderRet(0, ok) /\ Viol(Chk_HSetHeaderRet(0, ok)) /\ Emit("HSetHeaderRet", 0, IF ok THEN RNil ELSE RMisuse, 0, <<>>)
  /\ UNCHANGED <<req, reqClosed, resp, respClosed, svrDone, svrExit, sprop, sst, shdr, strl, smu,
                 cst, clast, chdr, ctrl, respMu, reqMu, sendClosed, tmp, probe, got, fst,
                 bud, ncancel, nhdr, ntrl, panicked>>

StartSendHeaderE ==
  /\ HRunning /\ bud["h"] > 0
  /\ bud' = [bud EXCEPT !["h"] = @ - 1]
  /\ Goto("h", "dhe1")
  /\ Ev_HSendHeaderCall(0) /\ NoViol /\ Emit("HSendHeaderCall", 0, RNil, 0, <<>>)
  /\ UNCHANGED <<req, reqClosed, resp, respClosed, svrDone, svrExit, sprop, sst, shdr, strl, smu,
                 cst, clast, chdr, ctrl, respMu, reqMu, sendClosed, tmp, probe, got, fst,
                 ncancel, nhdr, ntrl, panicked>>

SendHeaderLockE ==
  /\ pc["h"] = "dhe1" /\ smu = ""
  /\ IF sst # "H"
       THEN /\ Goto("h", "idle") /\ UNCHANGED smu
            /\ Ev_HSendHeaderRet(0, FALSE) /\ Viol(Chk_HSendHeaderRet(0, FALSE)) /\ Emit("HSendHeaderRet", 0, RMisuse, 0, <<>>)
       \* (sendHeadersLocked writes a headers frame only if there are headers)
       ELSE /\ Goto("h", IF shdr # <<>> THEN "dhe2" ELSE "dhe3") /\ smu' = "h"
            /\ UNCHANGED vars /\ NoViol /\ Quiet
  /\ UNCHANGED <<req, reqClosed, resp, respClosed, svrDone, svrExit, sprop, sst, shdr, strl,
                 cst, clast, chdr, ctrl, respMu, reqMu, sendClosed, tmp, probe, got, fst,
                 bud, ncancel, nhdr, ntrl, panicked>>

SendHeaderSelectE == HdrSelect("h", "dhe2", "dhe3")

SendHeaderRetE ==
  /\ pc["h"] = "dhe3"
  /\ Goto("h", "idle") /\ smu' = ""
  /\ LET ok == ~SDone \/ shdr = <<>> IN
       /\ shdr' = IF ok THEN <<>> ELSE shdr
       /\ sst' = IF ok THEN "M" ELSE sst
       /\ Ev_HSendHeaderRet(0, ok) /\ Viol(Chk_HSendHeaderRet(0, ok)) /\ Emit("HSendHeaderRet", 0, IF ok THEN RNil ELSE RMisuse, 0, <<>>)
  /\ UNCHANGED <<req, reqClosed, resp, respClosed, svrDone, svrExit, sprop, strl,
                 cst, clast, chdr, ctrl, respMu, reqMu, sendClosed, tmp, probe, got, fst,
                 bud, ncancel, nhdr, ntrl, panicked>>

SetTrailerDo ==
  /\ HRunning /\ bud["h"] > 0 /\ ntrl < MaxTrl /\ smu = ""
  /\ bud' = [bud EXCEPT !["h"] = @ - 1] /\ ntrl' = ntrl + 1
  /\ LET ok == sst # "C" IN
       /\ strl' = IF ok THEN Append(strl, ntrl + 1) ELSE strl
       /\ Ev_HSetTrailerRet(ntrl + 1, ok) /\ Viol(Chk_HSetTrailerRet(ntrl + 1, ok)) /\ Emit("HSetTrailerRet", ntrl + 1, IF ok THEN RNil ELSE RMisuse, 0, <<>>)
  /\ UNCHANGED <<req, reqClosed, resp, respClosed, svrDone, svrExit, sprop, sst, shdr, smu,
                 cst, clast, chdr, ctrl, respMu, reqMu, sendClosed, pc, tmp, probe, got, fst,
                 ncancel, nhdr, panicked>>

(* handler returns; finish(err) *)
HReturnDo(s) ==
  /\ HRunning /\ s \in Statuses
  /\ Goto("h", "f1")
  /\ tmp' = [tmp EXCEPT !["h"] = E(s)]
  /\ svrDone' = TRUE                          \* s.onDone()
  /\ Ev_HReturn(StRec(s), 0) /\ NoViol /\ Emit("HReturn", s, RNil, 0, <<>>)
  /\ UNCHANGED <<req, reqClosed, resp, respClosed, svrExit, sprop, sst, shdr, strl, smu,
                 cst, clast, chdr, ctrl, respMu, reqMu, sendClosed, probe, got, fst,
                 bud, ncancel, nhdr, ntrl, panicked>>

FinLock ==
  /\ pc["h"] = "f1" /\ smu = ""
  /\ smu' = "h"
  /\ Goto("h", IF sst = "H" /\ shdr # <<>> THEN "f2" ELSE IF strl # <<>> THEN "f3"
               ELSE IF tmp["h"].v # 0 THEN "f4" ELSE "f5")
  /\ UNCHANGED vars /\ NoViol /\ Quiet
  /\ UNCHANGED <<req, reqClosed, resp, respClosed, svrDone, svrExit, sprop, sst, shdr, strl,
                 cst, clast, chdr, ctrl, respMu, reqMu, sendClosed, tmp, probe, got, fst,
                 bud, ncancel, nhdr, ntrl, panicked>>

\* _ = writeMessage(s.ctx, nil, s.responses, frame): enqueue, or drop when the context is done
FinWrite(from, f, to) ==
  /\ pc["h"] = from
  /\ \/ /\ Len(resp) < Cap
        /\ resp' = Append(resp, f)
        /\ panicked' = (panicked \/ respClosed)
     \/ /\ SDone /\ UNCHANGED <<resp, panicked>>
  /\ Goto("h", to)
  /\ UNCHANGED vars /\ NoViol /\ Quiet
  /\ UNCHANGED <<req, reqClosed, respClosed, svrDone, svrExit, sprop, sst, shdr, strl, smu,
                 cst, clast, chdr, ctrl, respMu, reqMu, sendClosed, tmp, probe, got, fst,
                 bud, ncancel, nhdr, ntrl>>

FinH == FinWrite("f2", H(shdr), IF strl # <<>> THEN "f3" ELSE IF tmp["h"].v # 0 THEN "f4" ELSE "f5")
FinT == FinWrite("f3", T(strl), IF tmp["h"].v # 0 THEN "f4" ELSE "f5")
FinE == FinWrite("f4", tmp["h"], "f5")

\* s.state = closed; close(s.responses); s.mu.Unlock(); then svrCancel()
FinClose ==
  /\ pc["h"] = "f5"
  /\ Goto("h", "done")
  /\ sst' = "C" /\ respClosed' = TRUE /\ panicked' = (panicked \/ respClosed)
  /\ smu' = "" /\ svrExit' = TRUE
  /\ tmp' = [tmp EXCEPT !["h"] = NoFrame]
  /\ UNCHANGED vars /\ NoViol /\ Quiet
  /\ UNCHANGED <<req, reqClosed, resp, svrDone, sprop, shdr, strl,
                 cst, clast, chdr, ctrl, respMu, reqMu, sendClosed, probe, got, fst,
                 bud, ncancel, nhdr, ntrl>>

-----------------------------------------------------------------------------
(* client: Header() *)

StartHeader ==
  /\ pc["cr"] = "idle" /\ bud["cr"] > 0
  /\ bud' = [bud EXCEPT !["cr"] = @ - 1]
  /\ Goto("cr", "ch1")
  /\ Ev_CHeaderCall /\ NoViol /\ Emit("CHeaderCall", 0, RNil, 0, <<>>)
  /\ UNCHANGED <<req, reqClosed, resp, respClosed, svrDone, svrExit, sprop, sst, shdr, strl, smu,
                 cst, clast, chdr, ctrl, respMu, reqMu, sendClosed, tmp, probe, got, fst,
                 ncancel, nhdr, ntrl, panicked>>

HeaderLock ==
  /\ pc["cr"] = "ch1" /\ respMu = ""
  /\ IF cst # "H"
       THEN /\ Goto("cr", "idle") /\ UNCHANGED respMu
            /\ UNCHANGED vars /\ Viol(Chk_CHeaderRet(RNil, chdr)) /\ Emit("CHeaderRet", 0, RNil, 0, chdr)
       ELSE /\ Goto("cr", "ch2") /\ respMu' = "cr" /\ UNCHANGED vars /\ NoViol /\ Quiet
  /\ UNCHANGED <<req, reqClosed, resp, respClosed, svrDone, svrExit, sprop, sst, shdr, strl, smu,
                 cst, clast, chdr, ctrl, reqMu, sendClosed, tmp, probe, got, fst,
                 bud, ncancel, nhdr, ntrl, panicked>>

\* readMessage(s.ctx, s.responses): select
RespSelect(from, to, onctx) ==
  /\ pc["cr"] = from
  /\ \/ /\ resp # <<>>
        /\ tmp' = [tmp EXCEPT !["cr"] = Head(resp)] /\ resp' = Tail(resp)
        /\ Goto("cr", to)
     \/ /\ resp = <<>> /\ respClosed
        /\ tmp' = [tmp EXCEPT !["cr"] = Closed] /\ UNCHANGED resp
        /\ Goto("cr", to)
     \/ /\ CDone
        /\ tmp' = [tmp EXCEPT !["cr"] = NoFrame] /\ UNCHANGED resp
        /\ Goto("cr", onctx)

HeaderSelect ==
  /\ RespSelect("ch2", "ch3", "ch3")
  /\ UNCHANGED vars /\ NoViol /\ Quiet
  /\ UNCHANGED <<req, reqClosed, respClosed, svrDone, svrExit, sprop, sst, shdr, strl, smu,
                 cst, clast, chdr, ctrl, respMu, reqMu, sendClosed, probe, got, fst,
                 bud, ncancel, nhdr, ntrl, panicked>>

HeaderCheck ==
  /\ pc["cr"] = "ch3"
  /\ Goto("cr", "idle") /\ respMu' = ""
  /\ tmp' = [tmp EXCEPT !["cr"] = NoFrame]
  /\ LET f == tmp["cr"] IN
     IF CDone \/ f.t = "N"
       THEN /\ UNCHANGED <<cst, clast, chdr, ctrl>>
            /\ UNCHANGED vars /\ Viol(Chk_CHeaderRet(RCtx(TRUE), <<>>)) /\ Emit("CHeaderRet", 0, RCtx(TRUE), 0, <<>>)
       ELSE /\ cst' = IF f.t \in {"X", "E"} THEN "C" ELSE "M"
            /\ chdr' = IF f.t = "H" THEN f.w ELSE chdr
            /\ ctrl' = IF f.t = "T" THEN f.w ELSE ctrl
            /\ clast' = IF f.t \in {"E", "D"} THEN f ELSE clast
            /\ UNCHANGED vars
            /\ Viol(Chk_CHeaderRet(RNil, IF f.t = "H" THEN f.w ELSE chdr)) /\ Emit("CHeaderRet", 0, RNil, 0, IF f.t = "H" THEN f.w ELSE chdr)
  /\ UNCHANGED <<req, reqClosed, resp, respClosed, svrDone, svrExit, sprop, sst, shdr, strl, smu,
                 reqMu, sendClosed, probe, got, fst,
                 bud, ncancel, nhdr, ntrl, panicked>>

(* client: Trailer() *)
TrailerDo ==
  /\ pc["cr"] = "idle" /\ bud["cr"] > 0 /\ respMu = ""
  /\ bud' = [bud EXCEPT !["cr"] = @ - 1]
  /\ UNCHANGED vars /\ Viol(Chk_CTrailerRet(ctrl)) /\ Emit("CTrailerRet", 0, RNil, 0, ctrl)
  /\ UNCHANGED <<req, reqClosed, resp, respClosed, svrDone, svrExit, sprop, sst, shdr, strl, smu,
                 cst, clast, chdr, ctrl, respMu, reqMu, sendClosed, pc, tmp, probe, got, fst,
                 ncancel, nhdr, ntrl, panicked>>

(* client: RecvMsg *)
StartRecv ==
  /\ pc["cr"] = "idle" /\ bud["cr"] > 0
  /\ bud' = [bud EXCEPT !["cr"] = @ - 1]
  /\ Goto("cr", "r1")
  /\ Ev_CRecvCall /\ NoViol /\ Emit("CRecvCall", 0, RNil, 0, <<>>)
  /\ UNCHANGED <<req, reqClosed, resp, respClosed, svrDone, svrExit, sprop, sst, shdr, strl, smu,
                 cst, clast, chdr, ctrl, respMu, reqMu, sendClosed, tmp, probe, got, fst,
                 ncancel, nhdr, ntrl, panicked>>

RecvLock ==
  /\ pc["cr"] = "r1" /\ respMu = ""
  /\ respMu' = "cr" /\ probe' = FALSE /\ got' = 0
  /\ Goto("cr", "r2")
  /\ UNCHANGED vars /\ NoViol /\ Quiet
  /\ UNCHANGED <<req, reqClosed, resp, respClosed, svrDone, svrExit, sprop, sst, shdr, strl, smu,
                 cst, clast, chdr, ctrl, reqMu, sendClosed, tmp, fst,
                 bud, ncancel, nhdr, ntrl, panicked>>

\* the operation returns result r (carrying message m when nil)
RecvReturn(r, m) ==
  /\ Goto("cr", "idle") /\ respMu' = ""
  /\ Ev_CRecvRet(r, m) /\ Viol(Chk_CRecvRet(r, m)) /\ Emit("CRecvRet", 0, r, m, <<>>)

\* outcome of one recvMsgLocked: a data frame k was copied out
\*  - stream method, or already inside ensureNoMoreLocked: see below
Delivered(k) ==
  IF probe THEN   \* second message on a single-response method
       /\ clast' = E(99) /\ cst' = "C"
       /\ RecvReturn(RLib, 0)
       /\ UNCHANGED <<probe, got>>
  ELSE IF RespStreamC THEN
       /\ RecvReturn(RNil, k) /\ UNCHANGED <<cst, probe, got>> /\ clast' = NoFrame
  ELSE \* lastMessage: ensureNoMoreLocked -> recvMsgLocked(copy, false)
       /\ probe' = TRUE /\ got' = k /\ clast' = NoFrame
       /\ Goto("cr", "r2") /\ UNCHANGED <<respMu, cst>>
       /\ UNCHANGED vars /\ NoViol /\ Quiet

\* outcome of one recvMsgLocked: error r.  Inside ensureNoMoreLocked only
\* io.EOF means "no more messages" (the first message is then a success);
\* any other error is the call's outcome.
Failed(r) ==
  IF probe /\ r.k = "eof" THEN RecvReturn(RNil, got) ELSE RecvReturn(r, 0)

\* s.last handling at the top of recvMsgLocked
RecvPeeked ==
  /\ pc["cr"] = "r2" /\ clast.t # "N"
  /\ IF clast.t = "D"
       THEN Delivered(clast.v)
       ELSE /\ cst' = "C" /\ UNCHANGED <<clast, probe, got>>
            /\ Failed(IF clast.v = 99 THEN RLib ELSE RSt(clast.v))
  /\ UNCHANGED <<req, reqClosed, resp, respClosed, svrDone, svrExit, sprop, sst, shdr, strl, smu,
                 chdr, ctrl, reqMu, sendClosed, tmp, fst,
                 bud, ncancel, nhdr, ntrl, panicked>>

RecvSelect ==
  /\ pc["cr"] \in {"r2", "r3"} /\ clast.t = "N"
  /\ RespSelect(pc["cr"], "r4", "r4")
  /\ UNCHANGED vars /\ NoViol /\ Quiet
  /\ UNCHANGED <<req, reqClosed, respClosed, svrDone, svrExit, sprop, sst, shdr, strl, smu,
                 cst, clast, chdr, ctrl, respMu, reqMu, sendClosed, probe, got, fst,
                 bud, ncancel, nhdr, ntrl, panicked>>

RecvCheck ==
  /\ pc["cr"] = "r4"
  /\ tmp' = [tmp EXCEPT !["cr"] = NoFrame]
  /\ LET f == tmp["cr"] IN
     IF CDone \/ f.t = "N" THEN
          /\ Failed(RCtx(FALSE)) /\ UNCHANGED <<cst, clast, chdr, ctrl, probe, got>>
     ELSE IF f.t = "X" THEN
          /\ cst' = "C" /\ Failed(REof) /\ UNCHANGED <<clast, chdr, ctrl, probe, got>>
     ELSE IF f.t = "H" THEN
          /\ cst' = "M" /\ chdr' = f.w /\ Goto("cr", "r3")
          /\ UNCHANGED <<clast, ctrl, probe, got, respMu>> /\ UNCHANGED vars /\ NoViol /\ Quiet
     ELSE IF f.t = "T" THEN
          /\ ctrl' = f.w /\ Goto("cr", "r3")
          /\ UNCHANGED <<cst, clast, chdr, probe, got, respMu>> /\ UNCHANGED vars /\ NoViol /\ Quiet
     ELSE IF f.t = "E" THEN
          /\ cst' = "C" /\ clast' = f /\ UNCHANGED <<chdr, ctrl, probe, got>>
          /\ Failed(RSt(f.v))
     ELSE /\ Delivered(f.v) /\ UNCHANGED <<chdr, ctrl>>
  /\ UNCHANGED <<req, reqClosed, resp, respClosed, svrDone, svrExit, sprop, sst, shdr, strl, smu,
                 reqMu, sendClosed, fst,
                 bud, ncancel, nhdr, ntrl, panicked>>

-----------------------------------------------------------------------------
Cancel(why) ==
  /\ cctx = "live" /\ ncancel < MaxCancel
  /\ ncancel' = ncancel + 1
  /\ Ev_Cancel(why) /\ NoViol /\ Emit("Cancel", IF why = "cancel" THEN 1 ELSE 4, RNil, 0, <<>>)
  /\ UNCHANGED <<req, reqClosed, resp, respClosed, svrDone, svrExit, sprop, sst, shdr, strl, smu,
                 cst, clast, chdr, ctrl, respMu, reqMu, sendClosed, pc, tmp, probe, got, fst,
                 bud, nhdr, ntrl, panicked>>

\* the cancellation of the caller's context reaches the server side
Propagate ==
  /\ CDone /\ ~sprop
  /\ sprop' = TRUE
  /\ UNCHANGED vars /\ NoViol /\ Quiet
  /\ UNCHANGED <<req, reqClosed, resp, respClosed, svrDone, svrExit, sst, shdr, strl, smu,
                 cst, clast, chdr, ctrl, respMu, reqMu, sendClosed, pc, tmp, probe, got, fst,
                 bud, ncancel, nhdr, ntrl, panicked>>

\* every thread is at rest and the handler has returned: the run is over
Terminated ==
  /\ \A t \in Threads : pc[t] \in {"idle", "done"}
  /\ pc["h"] = "done"
  /\ UNCHANGED allvars

Next ==
  \/ StartSend \/ SendLock \/ SendSelect \/ SendRet
  \/ \E t \in Closers : StartClose(t) \/ CloseDo(t)
  \/ StartHRecv \/ HRecvSelect \/ HRecvCheck
  \/ StartHSend \/ HSendLock \/ HSendHdrSelect \/ HSendHdrRet \/ HSendDataSelect \/ HSendRet
  \/ StartSetHeader \/ SetHeaderDo \/ StartSendHeader \/ SendHeaderLock \/ SendHeaderSelect \/ SendHeaderRet
  \/ StartSetHeaderE \/ SetHeaderDoE \/ StartSendHeaderE \/ SendHeaderLockE \/ SendHeaderSelectE \/ SendHeaderRetE
  \/ SetTrailerDo
  \/ \E s \in Statuses : HReturnDo(s)
  \/ FinLock \/ FinH \/ FinT \/ FinE \/ FinClose
  \/ StartHeader \/ HeaderLock \/ HeaderSelect \/ HeaderCheck
  \/ TrailerDo
  \/ StartRecv \/ RecvLock \/ RecvPeeked \/ RecvSelect \/ RecvCheck
  \/ \E w \in CancelKinds : Cancel(w)
  \/ Propagate
  \/ Terminated

Spec == Init /\ [][Next]_allvars

\* fairness for the liveness form of C05: every internal step of an operation
\* in progress is eventually taken (threads need not start new operations,
\* but the handler eventually returns)
Fair ==
  /\ WF_allvars(SendLock \/ SendSelect \/ SendRet)
  /\ WF_allvars(\E t \in Closers : CloseDo(t))
  /\ WF_allvars(HRecvSelect \/ HRecvCheck)
  /\ WF_allvars(HSendLock \/ HSendHdrSelect \/ HSendHdrRet \/ HSendDataSelect \/ HSendRet)
  /\ WF_allvars(SetHeaderDo \/ SendHeaderLock \/ SendHeaderSelect \/ SendHeaderRet)
  /\ WF_allvars(SetHeaderDoE \/ SendHeaderLockE \/ SendHeaderSelectE \/ SendHeaderRetE)
  /\ WF_allvars(FinLock \/ FinH \/ FinT \/ FinE \/ FinClose)
  /\ WF_allvars(HeaderLock \/ HeaderSelect \/ HeaderCheck)
  /\ WF_allvars(RecvLock \/ RecvPeeked \/ RecvSelect \/ RecvCheck)
  /\ WF_allvars(Propagate)

FairSpec == Spec /\ Fair

-----------------------------------------------------------------------------
(* Properties *)

TypeOK ==
  /\ Len(req) <= Cap /\ Len(resp) <= Cap
  /\ cctx \in {"live", "cancel", "deadline"}

NoPanic == ~panicked

\* L1 => L0: no API-level step that L0 forbids, other than listed deviations
Refines == lviol \subseteq Known

\* C20: the channels never hold more than Cap frames (trivial here) and the
\* derived API-level bound is part of Refines (Chk_CSendRet / Chk_HSendRet)
C20_Bound == Len(req) <= Cap /\ Len(resp) <= Cap

\* C05, safety form: once the handler has finished or the context is done no
\* client operation is parked at a select with no ready case
ClientParked ==
  \/ (pc["cs"] = "s2" /\ ~(Len(req) < Cap) /\ ~CDone /\ ~svrDone)
  \/ (pc["cr"] \in {"ch2", "r2", "r3"} /\ clast.t = "N" /\ resp = <<>> /\ ~respClosed /\ ~CDone)
HandlerParked ==
  \/ (pc["h"] = "hr1" /\ req = <<>> /\ ~reqClosed /\ ~SDone)
  \/ (pc["h"] \in {"hs3", "hs5", "dh2", "f2", "f3", "f4"} /\ ~(Len(resp) < Cap) /\ ~SDone)
C05_NoStuck ==
  /\ (pc["h"] = "done" \/ CDone) => ~ClientParked
  /\ sprop => ~HandlerParked

\* C05, liveness form
AllIdle == \A t \in {"cs", "cs2", "cr"} : pc[t] = "idle"
C05_Live == (pc["h"] = "done" \/ CDone) ~> AllIdle

=============================================================================
