----------------------------- MODULE InprocUnary -----------------------------
(***************************************************************************)
(* L1: implementation-shaped model of one unary RPC over                   *)
(* inprocgrpc.Channel.Invoke (inprocgrpc/in_process.go).  Invoke starts a  *)
(* server goroutine that runs the handler and then pushes up to four       *)
(* frames (headers, data, trailers, error) into a capacity-1 channel       *)
(* through writeMessage (select: send / ctx.Done) and closes it; the       *)
(* caller loops on select{frame, ctx.Done}.  Every pc of the server        *)
(* goroutine and the top of the caller's loop is a verifPoint hook in the  *)
(* code, so a behaviour of this model is a gate schedule of the real code. *)
(* EXTENDS GrpcCall: API-level steps perform the L0 events; Refines is the *)
(* check L1 => L0.                                                         *)
(***************************************************************************)
EXTENDS GrpcCall

CONSTANTS
  NH,           \* handler operations before it returns
  MaxHdr, MaxTrl,
  Outcomes,     \* subset of {"resp", "nilresp", "err", "resperr"}: what the handler returns
  CancelKinds,  \* subset of {"cancel", "deadline"}
  FixClosed,    \* TRUE: on a closed channel a done context wins, and the server stops
                \* delivering frames at the first write that met a done context (the repaired code)
  FixDecode,    \* TRUE: the request is not read after Invoke returned (the repaired code)
  Known

VARIABLES
  ch, chClosed,
  spc,          \* server goroutine: "idle","start","handler","handled","wH","wD","wT","wE","close","done"
  cpc,          \* caller: "idle","loop","returned"
  hdrs, hdrsSent, tlrs,   \* UnaryServerTransportStream
  outcome,      \* what the handler returned
  gotResponse, hdrOut, trlOut, msgOut,
  decoded,      \* the handler has copied the request
  readAfterReturn,
  bud, nhdr, ntrl, ncancel,
  lviol,
  ev            \* the API event the last step emitted (NoEv for internal steps); binds traces, hidden by a VIEW otherwise

lvars == <<ch, chClosed, spc, cpc, hdrs, hdrsSent, tlrs, outcome, gotResponse, hdrOut, trlOut,
           msgOut, decoded, readAfterReturn, bud, nhdr, ntrl, ncancel, lviol>>
allvars == <<vars, lvars, ev>>
ViewNoEv == <<vars, lvars>>

FH(s) == [t |-> "H", v |-> 0, w |-> s]
FD    == [t |-> "D", v |-> 1, w |-> <<>>]
FT(s) == [t |-> "T", v |-> 0, w |-> s]
FE(s) == [t |-> "E", v |-> s, w |-> <<>>]

RNil == [k |-> "nil", code |-> 0, st |-> 0, raw |-> FALSE]
REof == [k |-> "eof", code |-> -1, st |-> 0, raw |-> TRUE]
RCtx == [k |-> "err", code |-> CtxCode, st |-> 0, raw |-> FALSE]
RSt(s) == [k |-> "err", code |-> 13, st |-> s, raw |-> FALSE]
RLib == [k |-> "err", code |-> 13, st |-> 0, raw |-> FALSE]
StRec(s) == [st |-> s, code |-> IF s = 0 THEN 0 ELSE 13, ctxerr |-> FALSE]

RMisuse == [k |-> "err", code |-> 2, st |-> 0, raw |-> TRUE]
NoEv == [n |-> "", a |-> 0, k |-> "", cat |-> "", m |-> 0, v |-> <<>>, t |-> <<>>]
Cat(r) == IF r.k # "err" THEN ""
          ELSE IF r.st > 0 THEN "hst"
          ELSE IF r.code = 13 THEN "lib"
          ELSE IF r.code = 2 /\ r.raw THEN "misuse"
          ELSE "ctx"
Emit(n, a, r, m, v, t) == ev' = [n |-> n, a |-> a, k |-> r.k, cat |-> Cat(r), m |-> m, v |-> v, t |-> t]
Quiet == ev' = NoEv

CDone == cctx # "live"
\* the server's context: child of the caller's, cancelled when Invoke returns
SDone == CDone \/ cpc = "returned"

Init ==
  /\ InitH("unary", "inproc", <<>>, "idle")
  /\ ch = <<>> /\ chClosed = FALSE
  /\ spc = "idle" /\ cpc = "idle"
  /\ hdrs = <<>> /\ hdrsSent = FALSE /\ tlrs = <<>>
  /\ outcome = "none"
  /\ gotResponse = FALSE /\ hdrOut = <<>> /\ trlOut = <<>> /\ msgOut = 0
  /\ decoded = "no" /\ readAfterReturn = FALSE
  /\ bud = NH /\ nhdr = 0 /\ ntrl = 0 /\ ncancel = 0
  /\ lviol = {}
  /\ ev = NoEv

Viol(S) == lviol' = lviol \cup S
NoViol == lviol' = lviol

\* Invoke is called: the server goroutine is created, the caller enters its loop
CStart ==
  /\ cpc = "idle"
  /\ cpc' = "loop" /\ spc' = "start"
  /\ Ev_CInvokeCall /\ NoViol /\ Emit("CInvokeCall", 0, RNil, 0, <<>>, <<>>)
  /\ UNCHANGED <<ch, chClosed, hdrs, hdrsSent, tlrs, outcome, gotResponse, hdrOut, trlOut, msgOut,
                 decoded, readAfterReturn, bud, nhdr, ntrl, ncancel>>

\* the server goroutine runs: md.Handler(...) is entered
SrvStart ==
  /\ spc = "start"
  /\ spc' = "handler"
  /\ Ev_HStart /\ Viol(Chk_HStart(<<>>)) /\ Quiet
  /\ UNCHANGED <<ch, chClosed, cpc, hdrs, hdrsSent, tlrs, outcome, gotResponse, hdrOut, trlOut, msgOut,
                 decoded, readAfterReturn, bud, nhdr, ntrl, ncancel>>

\* the handler (generated code: first thing) decodes the request: the codec
\* closure copies the caller's request object (two steps: call and return of
\* the decode callback, so that Invoke can return in between)
HDecodeCall ==
  /\ spc = "handler" /\ decoded = "no" /\ bud > 0
  /\ bud' = bud - 1 /\ decoded' = "calling"
  /\ Ev_HRecvCall /\ NoViol /\ Emit("HRecvCall", 0, RNil, 0, <<>>, <<>>)
  /\ UNCHANGED <<ch, chClosed, spc, cpc, hdrs, hdrsSent, tlrs, outcome, gotResponse, hdrOut, trlOut,
                 msgOut, readAfterReturn, nhdr, ntrl, ncancel>>

\* reqMu.Lock(); if reqGone { return Canceled }; return cloner.Copy(out, req)
\* -- the critical section: the check and the copy are one step (Invoke cannot
\* return in between: its deferred "reqGone = true" takes the same mutex)
HDecodeCopy ==
  /\ spc = "handler" /\ decoded = "calling"
  /\ IF FixDecode /\ cpc = "returned"
       THEN decoded' = "refused" /\ UNCHANGED readAfterReturn
       ELSE decoded' = "copied" /\ readAfterReturn' = (readAfterReturn \/ cpc = "returned")
  /\ UNCHANGED vars /\ NoViol /\ Quiet
  /\ UNCHANGED <<ch, chClosed, spc, cpc, hdrs, hdrsSent, tlrs, outcome, gotResponse, hdrOut, trlOut,
                 msgOut, bud, nhdr, ntrl, ncancel>>

\* the decode callback returns to the handler (Invoke may have returned meanwhile)
HDecodeRet ==
  /\ spc = "handler" /\ decoded \in {"copied", "refused"}
  /\ decoded' = "done"
  /\ IF decoded = "refused"
       THEN /\ Ev_HRecvRet([k |-> "err", code |-> 1, st |-> 0, raw |-> FALSE], 0)
            /\ Viol(Chk_HRecvRet([k |-> "err", code |-> 1, st |-> 0, raw |-> FALSE], 0))
            /\ Emit("HRecvRet", 0, [k |-> "err", code |-> 1, st |-> 0, raw |-> FALSE], 0, <<>>, <<>>)
       ELSE /\ Ev_HRecvRet(RNil, 1) /\ Viol(Chk_HRecvRet(RNil, 1)) /\ Emit("HRecvRet", 0, RNil, 1, <<>>, <<>>)
  /\ UNCHANGED <<ch, chClosed, spc, cpc, hdrs, hdrsSent, tlrs, outcome, gotResponse, hdrOut, trlOut,
                 msgOut, readAfterReturn, bud, nhdr, ntrl, ncancel>>

\* grpc.SetHeader / grpc.SendHeader / grpc.SetTrailer on the handler's context
HSetHeader(send) ==
  /\ spc = "handler" /\ bud > 0 /\ nhdr < MaxHdr /\ decoded \in {"no", "done"}
  /\ bud' = bud - 1 /\ nhdr' = nhdr + 1
  /\ LET ok == ~hdrsSent IN
       /\ hdrs' = IF ok THEN Append(hdrs, nhdr + 1) ELSE hdrs
       /\ hdrsSent' = (hdrsSent \/ (ok /\ send))
       /\ IF send
            THEN Ev_HSendHeaderAtomic(nhdr + 1, ok) /\ Viol(Chk_HSendHeaderAtomic(nhdr + 1, ok))
                 /\ Emit("HSendHeaderRet", nhdr + 1, IF ok THEN RNil ELSE RMisuse, 0, <<>>, <<>>)
            ELSE Ev_HSetHeaderRet(nhdr + 1, ok) /\ Viol(Chk_HSetHeaderRet(nhdr + 1, ok))
                 /\ Emit("HSetHeaderRet", nhdr + 1, IF ok THEN RNil ELSE RMisuse, 0, <<>>, <<>>)
  /\ UNCHANGED <<ch, chClosed, spc, cpc, tlrs, outcome, gotResponse, hdrOut, trlOut, msgOut,
                 decoded, readAfterReturn, ntrl, ncancel>>

\* the same with EMPTY metadata (SendHeader(nil): "flush the headers"): nothing
\* is added, but SendHeader still marks the headers as sent
HSetHeaderE(send) ==
  /\ spc = "handler" /\ bud > 0 /\ decoded \in {"no", "done"}
  /\ bud' = bud - 1
  \* (grpc.SetHeader returns nil for empty metadata without looking at the stream)
  /\ LET ok == ~hdrsSent \/ ~send IN
       /\ hdrsSent' = (hdrsSent \/ (ok /\ send))
       /\ IF send
            THEN Ev_HSendHeaderAtomic(0, ok) /\ Viol(Chk_HSendHeaderAtomic(0, ok))
                 /\ Emit("HSendHeaderRet", 0, IF ok THEN RNil ELSE RMisuse, 0, <<>>, <<>>)
            ELSE Ev_HSetHeaderRet(0, ok) /\ Viol(Chk_HSetHeaderRet(0, ok))
                 /\ Emit("HSetHeaderRet", 0, IF ok THEN RNil ELSE RMisuse, 0, <<>>, <<>>)
  /\ UNCHANGED <<ch, chClosed, spc, cpc, hdrs, tlrs, outcome, gotResponse, hdrOut, trlOut, msgOut,
                 decoded, readAfterReturn, nhdr, ntrl, ncancel>>

HSetTrailer ==
  /\ spc = "handler" /\ bud > 0 /\ ntrl < MaxTrl /\ decoded \in {"no", "done"}
  /\ bud' = bud - 1 /\ ntrl' = ntrl + 1
  /\ tlrs' = Append(tlrs, ntrl + 1)
  /\ Ev_HSetTrailerRet(ntrl + 1, TRUE) /\ NoViol /\ Emit("HSetTrailerRet", ntrl + 1, RNil, 0, <<>>, <<>>)
  /\ UNCHANGED <<ch, chClosed, spc, cpc, hdrs, hdrsSent, outcome, gotResponse, hdrOut, trlOut, msgOut,
                 decoded, readAfterReturn, nhdr, ncancel>>

\* the handler returns
HReturnDo(o) ==
  /\ spc = "handler" /\ o \in Outcomes /\ decoded \in {"no", "done"}
  \* ("resperr": a response together with an error; the error wins)
  /\ outcome' = IF o = "resperr" THEN "err" ELSE o
  /\ spc' = "handled"
  /\ Ev_HReturn(StRec(IF o \in {"err", "resperr"} THEN 1 ELSE 0), IF o \in {"resp", "resperr"} THEN 1 ELSE 0) /\ NoViol
  /\ Emit("HReturn", IF o \in {"err", "resperr"} THEN 1 ELSE 0, RNil, IF o \in {"resp", "resperr"} THEN 1 ELSE 0, <<>>, <<>>)
  /\ UNCHANGED <<ch, chClosed, cpc, hdrs, hdrsSent, tlrs, gotResponse, hdrOut, trlOut, msgOut,
                 decoded, readAfterReturn, bud, nhdr, ntrl, ncancel>>

NextWrite(from) ==
  LET needD == outcome = "resp"
      needE == outcome # "resp"
      after(p) == CASE p = "handled" -> IF hdrs # <<>> THEN "wH" ELSE IF needD THEN "wD" ELSE IF tlrs # <<>> THEN "wT" ELSE IF needE THEN "wE" ELSE "close"
                    [] p = "wH" -> IF needD THEN "wD" ELSE IF tlrs # <<>> THEN "wT" ELSE IF needE THEN "wE" ELSE "close"
                    [] p = "wD" -> IF tlrs # <<>> THEN "wT" ELSE IF needE THEN "wE" ELSE "close"
                    [] p = "wT" -> IF needE THEN "wE" ELSE "close"
                    [] OTHER -> "close"
  IN after(from)

SrvHandled ==
  /\ spc = "handled"
  /\ spc' = NextWrite("handled")
  /\ UNCHANGED vars /\ NoViol /\ Quiet
  /\ UNCHANGED <<ch, chClosed, cpc, hdrs, hdrsSent, tlrs, outcome, gotResponse, hdrOut, trlOut, msgOut,
                 decoded, readAfterReturn, bud, nhdr, ntrl, ncancel>>

\* writeMessage(ctx, nil, ch, frame): enqueue, or drop when the context is done;
\* it returns ctx.Err(), and the repaired code stops at the first non-nil result
SrvWrite ==
  /\ spc \in {"wH", "wD", "wT", "wE"}
  /\ LET f == CASE spc = "wH" -> FH(hdrs) [] spc = "wD" -> FD [] spc = "wT" -> FT(tlrs)
                [] OTHER -> FE(IF outcome = "err" THEN 1 ELSE 99) IN
       \/ /\ Len(ch) < 1 /\ ch' = Append(ch, f)
       \/ /\ SDone /\ UNCHANGED ch
  /\ spc' = IF FixClosed /\ SDone THEN "close" ELSE NextWrite(spc)
  /\ UNCHANGED vars /\ NoViol /\ Quiet
  /\ UNCHANGED <<chClosed, cpc, hdrs, hdrsSent, tlrs, outcome, gotResponse, hdrOut, trlOut, msgOut,
                 decoded, readAfterReturn, bud, nhdr, ntrl, ncancel>>

SrvClose ==
  /\ spc = "close"
  /\ spc' = "done" /\ chClosed' = TRUE
  /\ UNCHANGED vars /\ NoViol /\ Quiet
  /\ UNCHANGED <<ch, cpc, hdrs, hdrsSent, tlrs, outcome, gotResponse, hdrOut, trlOut, msgOut,
                 decoded, readAfterReturn, bud, nhdr, ntrl, ncancel>>

Return(res, msg) ==
  /\ cpc' = "returned"
  /\ Ev_CInvokeRet(res, msg)
  /\ Viol(Chk_CInvokeRet(res, msg, hdrOut, trlOut))
  /\ Emit("CInvokeRet", 0, res, msg, hdrOut, trlOut)

\* one iteration of the caller's loop: select { case r, ok := <-ch ; case <-ctx.Done() }
CliTake ==
  /\ cpc = "loop" /\ ch # <<>>
  /\ ch' = Tail(ch)
  /\ LET f == Head(ch) IN
     CASE f.t = "E" -> /\ Return(IF f.v = 99 THEN RLib ELSE RSt(f.v), 0)
                       /\ UNCHANGED <<gotResponse, hdrOut, trlOut, msgOut>>
       [] f.t = "D" -> /\ gotResponse' = TRUE /\ msgOut' = f.v
                       /\ UNCHANGED <<cpc, hdrOut, trlOut>> /\ UNCHANGED vars /\ NoViol /\ Quiet
       [] f.t = "H" -> /\ hdrOut' = f.w
                       /\ UNCHANGED <<cpc, gotResponse, trlOut, msgOut>> /\ UNCHANGED vars /\ NoViol /\ Quiet
       [] OTHER     -> /\ trlOut' = f.w
                       /\ UNCHANGED <<cpc, gotResponse, hdrOut, msgOut>> /\ UNCHANGED vars /\ NoViol /\ Quiet
  /\ UNCHANGED <<chClosed, spc, hdrs, hdrsSent, tlrs, outcome, decoded, readAfterReturn, bud, nhdr, ntrl, ncancel>>

CliClosed ==
  /\ cpc = "loop" /\ ch = <<>> /\ chClosed
  /\ IF FixClosed /\ CDone THEN Return(RCtx, 0)
     ELSE IF gotResponse THEN Return(RNil, msgOut)
     ELSE Return(REof, 0)
  /\ UNCHANGED <<ch, chClosed, spc, hdrs, hdrsSent, tlrs, outcome, gotResponse, hdrOut, trlOut, msgOut,
                 decoded, readAfterReturn, bud, nhdr, ntrl, ncancel>>

CliCtxDone ==
  /\ cpc = "loop" /\ CDone
  /\ Return(RCtx, 0)
  /\ UNCHANGED <<ch, chClosed, spc, hdrs, hdrsSent, tlrs, outcome, gotResponse, hdrOut, trlOut, msgOut,
                 decoded, readAfterReturn, bud, nhdr, ntrl, ncancel>>

Cancel(why) ==
  /\ cctx = "live" /\ ncancel < 1
  /\ ncancel' = 1
  /\ Ev_Cancel(why) /\ NoViol /\ Emit("Cancel", IF why = "cancel" THEN 1 ELSE 4, RNil, 0, <<>>, <<>>)
  /\ UNCHANGED <<ch, chClosed, spc, cpc, hdrs, hdrsSent, tlrs, outcome, gotResponse, hdrOut, trlOut,
                 msgOut, decoded, readAfterReturn, bud, nhdr, ntrl>>

Terminated ==
  /\ spc = "done" /\ cpc = "returned"
  /\ UNCHANGED allvars

Next ==
  \/ CStart \/ SrvStart \/ HDecodeCall \/ HDecodeCopy \/ HDecodeRet \/ HSetHeader(TRUE) \/ HSetHeader(FALSE) \/ HSetHeaderE(TRUE) \/ HSetHeaderE(FALSE) \/ HSetTrailer
  \/ \E o \in Outcomes : HReturnDo(o)
  \/ SrvHandled \/ SrvWrite \/ SrvClose
  \/ CliTake \/ CliClosed \/ CliCtxDone
  \/ \E w \in CancelKinds : Cancel(w)
  \/ Terminated

Spec == Init /\ [][Next]_allvars

Refines == lviol \subseteq Known
C06_NoReadAfterReturn == ~readAfterReturn
TypeOK == Len(ch) <= 1
\* nothing can be stuck: the server's writes and the caller's select always
\* have a ready case once the context is done or the peer is gone
C05_NoStuck ==
  /\ (spc \in {"wH", "wD", "wT", "wE"} /\ SDone) => TRUE
  /\ (cpc = "loop" /\ spc = "done") => (ch # <<>> \/ chClosed)
=============================================================================
