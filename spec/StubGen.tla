------------------------------- MODULE StubGen -------------------------------
(***************************************************************************)
(* L2: the code the protoc plugin emits (C19).  A proto file is abstracted *)
(* to a sequence of services, each a sequence of method kinds               *)
(*   "U" unary, "SS" server-streaming, "CS" client-streaming, "BI" bidi.    *)
(* For every service the plugin must emit a registration function for that *)
(* service's own description and, with legacy stubs, one client method per  *)
(* rpc that calls the channel with the path "/<full service>/<method>", the *)
(* call shape matching the streaming flags and, for streaming methods, the  *)
(* index of the method among the service's streaming methods in declaration *)
(* order (the per-service loop of generateChanStubs with its streamCount).  *)
(***************************************************************************)
EXTENDS Integers, Sequences, FiniteSets

Kinds == {"U", "SS", "CS", "BI"}
Streaming(k) == k # "U"

Svcs(n) == UNION {[1..k -> Kinds] : k \in 0..n}

\* files: one service with up to n1 methods, or two services with up to n2 each
Files(n1, n2) == {<<s>> : s \in Svcs(n1)} \cup {<<s, t>> : s \in Svcs(n2), t \in Svcs(n2)}

Cases(n1, n2) == [fam : {"gen"}, file : Files(n1, n2), legacynames : BOOLEAN, style : {"camel", "snake"},
                  pkg : {"flat", "nested"}]

\* the request names further files to generate around the file under test:
\* one without services (messages only) before or after it, or one with a
\* service of its own before it.  What is emitted for the file under test must
\* not depend on its neighbours, and a file without services gets no output.
MultiCases(n1, n2) == [fam : {"gen"}, file : Files(n1, n2), legacynames : BOOLEAN, style : {"camel"}, pkg : {"flat"},
                       others : {"types-before", "types-after", "svc-before", "types-and-svc-before"}]

\* number of streaming methods among the first j-1 methods of a service
RECURSIVE StreamsBefore(_, _)
StreamsBefore(svc, j) ==
  IF j <= 1 THEN 0 ELSE StreamsBefore(svc, j - 1) + (IF Streaming(svc[j - 1]) THEN 1 ELSE 0)

Shape(k) == CASE k = "U" -> "invoke" [] k = "SS" -> "stream-send-close" [] OTHER -> "stream"

\* expected stub of method j of service i: <<service index, method index,
\* shape, stream index (-1 for unary)>>
ExpectedStubs(file) ==
  UNION { { <<i, j, Shape(file[i][j]), IF Streaming(file[i][j]) THEN StreamsBefore(file[i], j) ELSE -1>> :
              j \in 1..Len(file[i]) } : i \in 1..Len(file) }

V(ok, why) == IF ok THEN {} ELSE {why}
AsSet(s) == {s[i] : i \in DOMAIN s}

\* o: case fields + parses (the output is valid Go), stubs (sequence of
\* <<service index, method index, shape, stream index>> extracted from the
\* AST), pathsok (every stub's path literal is "/<pkg>.<Service>/<Method>" of
\* its own method), descok (every Streams[i] and every registration refers to
\* the description of the stub's own service), regs (number of registration
\* functions), nstubs (client methods found), panicked
Chk(o) ==
  IF o.panicked THEN {"panic"}
  ELSE IF o.fam = "regen" THEN V(o.same, "checked-in-stubs-not-reproduced")
  ELSE V(o.parses, "generated-code-not-valid-go")
       \cup V(AsSet(o.stubs) = ExpectedStubs(o.file), "stub-shape-or-stream-index")
       \cup V(o.nstubs = Cardinality(ExpectedStubs(o.file)), "stub-count")
       \cup V(o.pathsok, "stub-path")
       \cup V(o.descok, "stub-or-registration-bound-to-another-service")
       \cup V(o.regs = Len(o.file), "registration-function-count")
       \cup (IF "others" \in DOMAIN o
             THEN V(o.outfiles = 1 + (IF o.others \in {"svc-before", "types-and-svc-before"} THEN 1 ELSE 0), "output-file-count")
             ELSE {})
=============================================================================
