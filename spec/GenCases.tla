------------------------------ MODULE GenCases ------------------------------
(* Helper for B-gen of the tabular (L2) specifications: a module GenX       *)
(* (generated at run time) EXTENDS X and this module, and TLC writes the    *)
(* set X!Cases as NDJSON to $VERIF_OUT while evaluating the ASSUME.         *)
EXTENDS TLC, Json, IOUtils, SequencesExt
VARIABLE gx
GInit == gx = 0
GNext == UNCHANGED gx
GSpec == GInit /\ [][GNext]_gx
WriteCases(S) == ndJsonSerialize(IOEnv.VERIF_OUT, SetToSeq(S))
=============================================================================
