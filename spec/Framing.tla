------------------------------- MODULE Framing -------------------------------
(***************************************************************************)
(* L2: the stream decoders of httpgrpc (C07): the client's read loop in    *)
(* doHttpCall and the server's serverStream.RecvMsg, as a machine over an  *)
(* abstract byte tape.  A tape is a sequence of segments; a segment is the *)
(* bytes of one frame as far as they are present:                          *)
(*    pre   0..4   how many of the 4 bytes of the size prefix are there    *)
(*    size  class  the 32-bit value the prefix declares                    *)
(*    have  class  how many payload bytes follow: "none", "short" (one     *)
(*                 fewer than declared), "full"                            *)
(*    valid        a full payload decodes (trailer: as HttpTrailer; message:   *)
(*                 as the message type -- always, for the enumerated tapes) *)
(* Only the last segment of a tape may be incomplete; the body then ends   *)
(* cleanly (io.EOF) or abruptly (a read error).  Size classes: "z" zero,   *)
(* "s" a small message, "lim" exactly the 100 MiB limit, "over" 16 MiB more,  *)
(* "max" 2^31-1, "tr" a trailer (negative, small), "trover" a trailer      *)
(* declaring more than the limit, "min" -2^31.                             *)
(* Dec computes what the decoder must do; Chk compares with what the real  *)
(* code did with the materialised bytes.  A third source of cases are      *)
(* random byte strings (the harness's generator: frames, random payloads,  *)
(* random prefixes, garbage, cut anywhere): they are mapped to a tape by   *)
(* reading size prefixes only (the abstraction function, no decoding logic *)
(* of its own) and judged by the same Dec.                                 *)
(***************************************************************************)
EXTENDS Integers, Sequences, FiniteSets

MsgSizes == {"z", "s"}
Huge     == {"lim", "over", "max"}
Neg      == {"tr", "trover", "min"}

Complete(sz) == [pre |-> 4, size |-> sz, have |-> "full", valid |-> TRUE]

\* last segments that end the tape before a complete frame
Partial ==
  [pre : 0..3, size : {"z"}, have : {"none"}, valid : {TRUE}]
  \cup [pre : {4}, size : {"s"}, have : {"none", "short"}, valid : {TRUE}]
  \cup [pre : {4}, size : Huge \cup {"trover", "min"}, have : {"none", "short"}, valid : {TRUE}]
  \cup [pre : {4}, size : {"tr"}, have : {"none", "short"}, valid : {TRUE}]

Trailers == [pre : {4}, size : {"tr"}, have : {"full"}, valid : BOOLEAN]

MsgSeqs == {<<>>} \cup {<<Complete(a)>> : a \in MsgSizes}
           \cup {<<Complete(a), Complete(b)>> : a \in MsgSizes, b \in MsgSizes}

Tapes ==
  \* complete messages, then nothing / a partial frame / a trailer / a trailer and junk
  {m : m \in MsgSeqs}
  \cup {Append(m, p) : m \in MsgSeqs, p \in Partial}
  \cup {Append(m, t) : m \in MsgSeqs, t \in Trailers}
  \cup {Append(Append(m, t), Complete("s")) : m \in MsgSeqs, t \in Trailers}

Sides == {"client", "server-bidi", "server-ss"}
Cases == [fam : {"tape"}, segs : Tapes, ending : {"clean", "abrupt"}, side : Sides]

\* the largest buffer the decoder may allocate for a segment (in units: 0 =
\* nothing, 1 = at most the per-message limit)
RECURSIVE Dec(_, _, _, _)
\* result: "done" (trailer read), "eof" (clean end at a frame boundary),
\* "error"; n = messages delivered
Dec(segs, n, ending, side) ==
  IF segs = <<>> THEN [n |-> n, result |-> IF ending = "clean" THEN "eof" ELSE "error"]
  ELSE LET s == Head(segs) IN
    IF s.pre = 0 /\ Len(segs) = 1 THEN [n |-> n, result |-> IF ending = "clean" THEN "eof" ELSE "error"]
    ELSE IF s.pre < 4 THEN [n |-> n, result |-> "error"]
    ELSE IF s.size \in {"over", "max", "trover", "min"} THEN [n |-> n, result |-> "error"]
    ELSE IF s.size = "tr" THEN
         IF side # "client" THEN [n |-> n, result |-> "error"]          \* a request stream has no trailer
         ELSE IF s.have # "full" \/ ~s.valid THEN [n |-> n, result |-> "error"]
         ELSE [n |-> n, result |-> "done"]
    ELSE IF s.have # "full" THEN [n |-> n, result |-> "error"]          \* "lim" is never full here
    ELSE IF ~s.valid THEN [n |-> n, result |-> "error"]                 \* the payload does not decode as a message
    ELSE IF side = "server-ss" /\ n = 1 THEN [n |-> n, result |-> "error"]   \* second request on a single-request method
    ELSE Dec(Tail(segs), n + 1, ending, side)

V(ok, why) == IF ok THEN {} ELSE {why}

\* o: case fields + n (messages delivered), intact (each equals the encoded
\* one, in order), result ("ok" = io.EOF on the client / io.EOF at the server,
\* "error"), allocok (allocation stayed within the per-message limit),
\* panicked
Chk(o) ==
  IF o.panicked THEN {"panic"}
  ELSE LET d == Dec(o.segs, 0, o.ending, o.side)
           \* the server's single-request probe consumes the stream up to its
           \* end; a clean end after the one request is what it wants
           success == IF o.side = "client" THEN d.result = "done" ELSE d.result = "eof" IN
       V(o.allocok, "allocation-beyond-limit")
       \cup V(o.intact, "delivered-message-altered")
       \cup V(o.n <= d.n, "message-fabricated")
       \cup V((o.result = "ok") => success, "truncated-or-malformed-body-reported-as-success")
       \cup V(success => (o.result = "ok" /\ o.n = d.n), "well-formed-body-rejected")
       \cup V(o.side # "client" \/ o.n = d.n, "delivered-prefix-incomplete")

\* the second family: a recorded real reply body cut at every byte offset
\* o: [fam = "cut", total, cut, len, n, intact, result, panicked, allocok]
ChkCut(o) ==
  IF o.panicked THEN {"panic"}
  ELSE V(o.intact, "delivered-message-altered")
       \cup V(o.n <= o.total, "message-fabricated")
       \cup V(o.allocok, "allocation-beyond-limit")
       \cup (IF o.cut < o.len THEN V(o.result = "error", "cut-reply-reported-as-success")
             ELSE V(o.result = "ok" /\ o.n = o.total, "complete-reply-rejected"))

ChkAny(o) == IF o.fam = "cut" THEN ChkCut(o) ELSE Chk(o)
=============================================================================
