------------------------------ MODULE HttpUnary ------------------------------
(***************************************************************************)
(* L1: implementation-shaped model of one unary RPC over httpgrpc          *)
(* (httpgrpc/client.go Channel.Invoke; httpgrpc/server.go handleMethod)    *)
(* with the part of net/http that matters.                                 *)
(*   client: RoundTrip (fails with the context's error if the context ends *)
(*   before the reply header arrives) -> a goroutine reads the body ->     *)
(*   setMetadata (headers AND trailers travel in the reply header) ->      *)
(*   statFromResponse: a non-OK status is returned at once, without a look *)
(*   at the context -> select { ctx.Done ; body read }.                    *)
(*   server: the whole (short) request body is read, then the handler runs *)
(*   on a UnaryServerTransportStream; the reply is written when it returns.*)
(* EXTENDS GrpcCall: API-level steps perform the L0 events; Refines is the *)
(* check L1 => L0.                                                         *)
(***************************************************************************)
EXTENDS GrpcCall

CONSTANTS
  NH, MaxHdr, MaxTrl,
  Outcomes,     \* subset of {"resp", "nilresp", "err", "resperr"}
  CancelKinds,
  Known

VARIABLES
  cpc,          \* caller: "idle","rt","got","wait","returned"
  spc,          \* server: "idle","pending","handler","reply","done"
  rb,           \* the goroutine that reads the reply body: "none","reading","ok","err"
  reply,        \* the reply as it left the server (NoReply: not yet)
  gone,         \* the client's transport dropped the connection
  hdrs, hdrsSent, tlrs, outcome, decoded,
  hdrOut, trlOut,
  bud, nhdr, ntrl, ncancel,
  lviol,
  ev

lvars == <<cpc, spc, rb, reply, gone, hdrs, hdrsSent, tlrs, outcome, decoded, hdrOut, trlOut,
           bud, nhdr, ntrl, ncancel, lviol>>
allvars == <<vars, lvars, ev>>
ViewNoEv == <<vars, lvars>>

NoReply == [st |-> -1, hdr |-> <<>>, trl |-> <<>>, msg |-> FALSE]

RNil == [k |-> "nil", code |-> 0, st |-> 0, raw |-> FALSE]
RCtx == [k |-> "err", code |-> CtxCode, st |-> 0, raw |-> FALSE]
RSt(s) == [k |-> "err", code |-> 13, st |-> s, raw |-> FALSE]
RLib == [k |-> "err", code |-> 13, st |-> 0, raw |-> FALSE]
ROther == [k |-> "err", code |-> 2, st |-> 0, raw |-> TRUE]
RMisuse == [k |-> "err", code |-> 2, st |-> 0, raw |-> TRUE]
StRec(s) == [st |-> s, code |-> IF s = 0 THEN 0 ELSE 13, ctxerr |-> FALSE]

NoEv == [n |-> "", a |-> 0, k |-> "", cat |-> "", m |-> 0, v |-> <<>>, t |-> <<>>]
Cat(r) == IF r.k # "err" THEN ""
          ELSE IF r.st > 0 THEN "hst"
          ELSE IF r.code = 13 THEN "lib"
          ELSE IF r.raw THEN "other"
          ELSE "ctx"
Emit(n, a, r, m, v, t) == ev' = [n |-> n, a |-> a, k |-> r.k, cat |-> Cat(r), m |-> m, v |-> v, t |-> t]
Quiet == ev' = NoEv

CDone == cctx # "live"

Init ==
  /\ InitH("unary", "http", <<>>, "idle")
  /\ cpc = "idle" /\ spc = "idle" /\ rb = "none" /\ reply = NoReply /\ gone = FALSE
  /\ hdrs = <<>> /\ hdrsSent = FALSE /\ tlrs = <<>> /\ outcome = "none" /\ decoded = "no"
  /\ hdrOut = <<>> /\ trlOut = <<>>
  /\ bud = NH /\ nhdr = 0 /\ ntrl = 0 /\ ncancel = 0
  /\ lviol = {} /\ ev = NoEv

Viol(S) == lviol' = lviol \cup S
NoViol == lviol' = lviol

\* Invoke is called: the request leaves with RoundTrip
CStart ==
  /\ cpc = "idle"
  /\ cpc' = "rt" /\ spc' = "pending"
  /\ Ev_CInvokeCall /\ NoViol /\ Emit("CInvokeCall", 0, RNil, 0, <<>>, <<>>)
  /\ UNCHANGED <<rb, reply, gone, hdrs, hdrsSent, tlrs, outcome, decoded, hdrOut, trlOut, bud, nhdr, ntrl, ncancel>>

\* the server has the request (the short body is read at once): the handler starts
SrvStart ==
  /\ spc = "pending"
  /\ spc' = "handler"
  /\ Ev_HStart /\ Viol(Chk_HStart(<<>>)) /\ Quiet
  /\ UNCHANGED <<cpc, rb, reply, gone, hdrs, hdrsSent, tlrs, outcome, decoded, hdrOut, trlOut, bud, nhdr, ntrl, ncancel>>

\* the handler decodes the request (from the bytes the server holds)
HDecodeCall ==
  /\ spc = "handler" /\ decoded = "no" /\ bud > 0
  /\ bud' = bud - 1 /\ decoded' = "calling"
  /\ Ev_HRecvCall /\ NoViol /\ Emit("HRecvCall", 0, RNil, 0, <<>>, <<>>)
  /\ UNCHANGED <<cpc, spc, rb, reply, gone, hdrs, hdrsSent, tlrs, outcome, hdrOut, trlOut, nhdr, ntrl, ncancel>>

HDecodeRet ==
  /\ spc = "handler" /\ decoded = "calling"
  /\ decoded' = "done"
  /\ Ev_HRecvRet(RNil, 1) /\ Viol(Chk_HRecvRet(RNil, 1)) /\ Emit("HRecvRet", 0, RNil, 1, <<>>, <<>>)
  /\ UNCHANGED <<cpc, spc, rb, reply, gone, hdrs, hdrsSent, tlrs, outcome, hdrOut, trlOut, bud, nhdr, ntrl, ncancel>>

\* grpc.SetHeader / SendHeader / SetTrailer on the UnaryServerTransportStream
HSetHeader(send) ==
  /\ spc = "handler" /\ bud > 0 /\ nhdr < MaxHdr /\ decoded # "calling"
  /\ bud' = bud - 1 /\ nhdr' = nhdr + 1
  /\ LET ok == ~hdrsSent IN
       /\ hdrs' = IF ok THEN Append(hdrs, nhdr + 1) ELSE hdrs
       /\ hdrsSent' = (hdrsSent \/ (ok /\ send))
       /\ IF send
            THEN Ev_HSendHeaderAtomic(nhdr + 1, ok) /\ Viol(Chk_HSendHeaderAtomic(nhdr + 1, ok))
                 /\ Emit("HSendHeaderRet", nhdr + 1, IF ok THEN RNil ELSE RMisuse, 0, <<>>, <<>>)
            ELSE Ev_HSetHeaderRet(nhdr + 1, ok) /\ Viol(Chk_HSetHeaderRet(nhdr + 1, ok))
                 /\ Emit("HSetHeaderRet", nhdr + 1, IF ok THEN RNil ELSE RMisuse, 0, <<>>, <<>>)
  /\ UNCHANGED <<cpc, spc, rb, reply, gone, tlrs, outcome, decoded, hdrOut, trlOut, ntrl, ncancel>>

\* the same with EMPTY metadata (SendHeader(nil): "flush the headers"): nothing
\* is added, but SendHeader still marks the headers as sent
HSetHeaderE(send) ==
  /\ spc = "handler" /\ bud > 0 /\ decoded # "calling"
  /\ bud' = bud - 1
  \* (grpc.SetHeader returns nil for empty metadata without looking at the stream)
  /\ LET ok == ~hdrsSent \/ ~send IN
       /\ hdrsSent' = (hdrsSent \/ (ok /\ send))
       /\ IF send
            THEN Ev_HSendHeaderAtomic(0, ok) /\ Viol(Chk_HSendHeaderAtomic(0, ok))
                 /\ Emit("HSendHeaderRet", 0, IF ok THEN RNil ELSE RMisuse, 0, <<>>, <<>>)
            ELSE Ev_HSetHeaderRet(0, ok) /\ Viol(Chk_HSetHeaderRet(0, ok))
                 /\ Emit("HSetHeaderRet", 0, IF ok THEN RNil ELSE RMisuse, 0, <<>>, <<>>)
  /\ UNCHANGED <<cpc, spc, rb, reply, gone, hdrs, tlrs, outcome, decoded, hdrOut, trlOut, nhdr, ntrl, ncancel>>

HSetTrailer ==
  /\ spc = "handler" /\ bud > 0 /\ ntrl < MaxTrl /\ decoded # "calling"
  /\ bud' = bud - 1 /\ ntrl' = ntrl + 1
  /\ tlrs' = Append(tlrs, ntrl + 1)
  /\ Ev_HSetTrailerRet(ntrl + 1, TRUE) /\ NoViol /\ Emit("HSetTrailerRet", ntrl + 1, RNil, 0, <<>>, <<>>)
  /\ UNCHANGED <<cpc, spc, rb, reply, gone, hdrs, hdrsSent, outcome, decoded, hdrOut, trlOut, nhdr, ncancel>>

HReturnDo(o) ==
  /\ spc = "handler" /\ o \in Outcomes /\ decoded # "calling"
  \* ("resperr": a response together with an error; the error wins)
  /\ outcome' = (IF o = "resperr" THEN "err" ELSE o) /\ spc' = "reply"
  /\ Ev_HReturn(StRec(IF o \in {"err", "resperr"} THEN 1 ELSE 0), IF o \in {"resp", "resperr"} THEN 1 ELSE 0) /\ NoViol
  /\ Emit("HReturn", IF o \in {"err", "resperr"} THEN 1 ELSE 0, RNil, IF o \in {"resp", "resperr"} THEN 1 ELSE 0, <<>>, <<>>)
  /\ UNCHANGED <<cpc, rb, reply, gone, hdrs, hdrsSent, tlrs, decoded, hdrOut, trlOut, bud, nhdr, ntrl, ncancel>>

\* the reply is written: headers, trailers and the status travel in the reply
\* header; a nil response without an error cannot be marshalled: plain 500
SrvReply ==
  /\ spc = "reply"
  /\ spc' = "done"
  /\ reply' = IF gone THEN reply
              ELSE [st |-> IF outcome = "err" THEN 1 ELSE IF outcome = "nilresp" THEN 99 ELSE 0,
                    hdr |-> IF outcome = "nilresp" THEN <<>> ELSE hdrs,
                    trl |-> IF outcome = "nilresp" THEN <<>> ELSE tlrs,
                    msg |-> outcome = "resp"]
  /\ UNCHANGED vars /\ NoViol /\ Quiet
  /\ UNCHANGED <<cpc, rb, gone, hdrs, hdrsSent, tlrs, outcome, decoded, hdrOut, trlOut, bud, nhdr, ntrl, ncancel>>

Return(res, msg, h, t) ==
  /\ cpc' = "returned"
  /\ Ev_CInvokeRet(res, msg)
  /\ Viol(Chk_CInvokeRet(res, msg, h, t))
  /\ Emit("CInvokeRet", 0, res, msg, h, t)

\* RoundTrip returns with the reply header; the body reader goroutine starts;
\* setMetadata fills the header and trailer call options
\* (environment: once the request context is done net/http hands out no reply)
CliRtReply ==
  /\ cpc = "rt" /\ reply # NoReply /\ ~CDone
  /\ cpc' = "got" /\ rb' = "reading"
  /\ hdrOut' = reply.hdr /\ trlOut' = reply.trl
  /\ UNCHANGED vars /\ NoViol /\ Quiet
  /\ UNCHANGED <<spc, reply, gone, hdrs, hdrsSent, tlrs, outcome, decoded, bud, nhdr, ntrl, ncancel>>

\* RoundTrip fails because the context ended
CliRtCancelled ==
  /\ cpc = "rt" /\ CDone
  /\ Return(RCtx, 0, <<>>, <<>>)
  /\ UNCHANGED <<spc, rb, reply, gone, hdrs, hdrsSent, tlrs, outcome, decoded, hdrOut, trlOut, bud, nhdr, ntrl, ncancel>>

\* statFromResponse: a non-OK status is the result, whatever the context says
CliStat ==
  /\ cpc = "got"
  /\ IF reply.st # 0
       THEN Return(IF reply.st = 99 THEN RLib ELSE RSt(reply.st), 0, hdrOut, trlOut)
       ELSE cpc' = "wait" /\ UNCHANGED vars /\ NoViol /\ Quiet
  /\ UNCHANGED <<spc, rb, reply, gone, hdrs, hdrsSent, tlrs, outcome, decoded, hdrOut, trlOut, bud, nhdr, ntrl, ncancel>>

\* the goroutine that reads the reply body finishes
BodyRead ==
  /\ rb = "reading"
  /\ rb' \in (IF CDone THEN {"ok", "err"} ELSE {"ok"})
  /\ UNCHANGED vars /\ NoViol /\ Quiet
  /\ UNCHANGED <<cpc, spc, reply, gone, hdrs, hdrsSent, tlrs, outcome, decoded, hdrOut, trlOut, bud, nhdr, ntrl, ncancel>>

\* select { case <-ctx.Done(): ; case <-respCh: }
CliWait ==
  /\ cpc = "wait"
  /\ \/ CDone /\ Return(RCtx, 0, hdrOut, trlOut)
     \/ rb = "ok" /\ Return(RNil, 1, hdrOut, trlOut)
     \/ rb = "err" /\ Return(IF CDone THEN RCtx ELSE ROther, 0, hdrOut, trlOut)
  /\ UNCHANGED <<spc, rb, reply, gone, hdrs, hdrsSent, tlrs, outcome, decoded, hdrOut, trlOut, bud, nhdr, ntrl, ncancel>>

Cancel(why) ==
  /\ cctx = "live" /\ ncancel < 1
  /\ ncancel' = 1
  /\ Ev_Cancel(why) /\ NoViol /\ Emit("Cancel", IF why = "cancel" THEN 1 ELSE 4, RNil, 0, <<>>, <<>>)
  /\ UNCHANGED <<cpc, spc, rb, reply, gone, hdrs, hdrsSent, tlrs, outcome, decoded, hdrOut, trlOut, bud, nhdr, ntrl>>

\* the client's transport drops the connection once the request context is done
ConnGone ==
  /\ CDone /\ ~gone
  /\ gone' = TRUE
  /\ UNCHANGED vars /\ NoViol /\ Quiet
  /\ UNCHANGED <<cpc, spc, rb, reply, hdrs, hdrsSent, tlrs, outcome, decoded, hdrOut, trlOut, bud, nhdr, ntrl, ncancel>>

Terminated ==
  /\ spc \in {"done", "pending"} /\ cpc = "returned"
  /\ UNCHANGED allvars

Next ==
  \/ CStart \/ SrvStart \/ HDecodeCall \/ HDecodeRet \/ HSetHeader(TRUE) \/ HSetHeader(FALSE) \/ HSetHeaderE(TRUE) \/ HSetHeaderE(FALSE) \/ HSetTrailer
  \/ \E o \in Outcomes : HReturnDo(o)
  \/ SrvReply \/ CliRtReply \/ CliRtCancelled \/ CliStat \/ BodyRead \/ CliWait
  \/ \E w \in CancelKinds : Cancel(w)
  \/ ConnGone
  \/ Terminated

Spec == Init /\ [][Next]_allvars

Refines == lviol \subseteq Known
TypeOK == cpc \in {"idle", "rt", "got", "wait", "returned"}
\* nothing can be stuck: the caller's waits end when the context is done or the reply is complete
C05_NoStuck ==
  /\ (cpc = "rt" /\ CDone) => ENABLED CliRtCancelled
  /\ (cpc = "wait" /\ (CDone \/ rb \in {"ok", "err"})) => ENABLED CliWait
=============================================================================
