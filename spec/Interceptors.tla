---------------------------- MODULE Interceptors ----------------------------
(***************************************************************************)
(* L2: server interceptors (C16) and client interceptors (C17) as nested   *)
(* call chains.  An interceptor has a behaviour:                           *)
(*   "nil"     absent                                                      *)
(*   "pass"    calls onward and returns what it got                        *)
(*   "short"   returns its own result without calling onward               *)
(*   "fail"    returns an error without calling onward                     *)
(*   "rewrite" calls onward with a marked context / request / option list  *)
(*             and marks the result on the way back                        *)
(* A chain is the ordered list of <<name, behaviour>> a call must pass.    *)
(* Word(chain) is the sequence of names entered (ending with the handler / *)
(* base channel "H" if reached); Result(chain) is the token list of the    *)
(* final result: the origin ("h", "s:X" or "f:X") followed by the marks    *)
(* "+X" of the rewriting interceptors, innermost first.                    *)
(***************************************************************************)
EXTENDS Integers, Sequences, FiniteSets

Beh == {"nil", "pass", "short", "fail", "rewrite"}

RECURSIVE WordOf(_)
WordOf(chain) ==
  IF chain = <<>> THEN <<"H">>
  ELSE LET x == Head(chain) IN
       IF x[2] = "nil" THEN WordOf(Tail(chain))
       ELSE IF x[2] \in {"short", "fail"} THEN <<x[1]>>
       ELSE <<x[1]>> \o WordOf(Tail(chain))

RECURSIVE ResultOf(_)
ResultOf(chain) ==
  IF chain = <<>> THEN <<"h">>
  ELSE LET x == Head(chain) IN
       IF x[2] = "nil" \/ x[2] = "pass" THEN ResultOf(Tail(chain))
       ELSE IF x[2] = "short" THEN <<"s:" \o x[1]>>
       ELSE IF x[2] = "fail" THEN <<"f:" \o x[1]>>
       ELSE Append(ResultOf(Tail(chain)), "+" \o x[1])

RECURSIVE SeenBy(_, _)
\* what each element that is entered sees on the way in: the marks ">X" of the
\* rewriting interceptors before it, in order (one entry per letter of Word)
SeenBy(chain, acc) ==
  IF chain = <<>> THEN <<acc>>
  ELSE LET x == Head(chain) IN
       IF x[2] = "nil" THEN SeenBy(Tail(chain), acc)
       ELSE IF x[2] \in {"short", "fail"} THEN <<acc>>
       ELSE <<acc>> \o SeenBy(Tail(chain), IF x[2] = "rewrite" THEN Append(acc, ">" \o x[1]) ELSE acc)

\* the result is an error iff its origin is a failure
IsErr(res) == res[1] \in {"f:T", "f:L1", "f:L2", "f:L3"}

V(ok, why) == IF ok THEN {} ELSE {why}

-----------------------------------------------------------------------------
(* C16: layers[1] is applied first (innermost), layers[Len] last (outermost);
   t is the transport-level interceptor of the carrier.  The call goes
   T, L_n, ..., L_1, handler. *)
ServerLayers == {<<>>} \cup {<<a>> : a \in Beh} \cup {<<a, b>> : a \in Beh, b \in Beh}

\* the service has three unary methods and three streaming methods with
\* different streaming flags (client-, server-, bidi-streaming); target is the
\* index of the method that is called
ServerCases ==
  [fam : {"server"}, carrier : {"registry", "inproc", "http"}, kind : {"unary", "stream"}, target : 1..3,
   t : Beh, layers : ServerLayers, other : BOOLEAN, via : {"InterceptServer", "WithInterceptor"}]

\* the same decorated description dispatched again by a carrier with another
\* transport-level interceptor T2 (a description registered with two channels,
\* a registry entry called by two transports): the second call goes through
\* T2, not through whatever the first call was given
ReuseCases ==
  [fam : {"server"}, carrier : {"registry", "inproc"}, kind : {"unary", "stream"}, target : {1, 3},
   t : {"nil", "pass", "rewrite"}, t2 : {"nil", "pass", "rewrite"},
   layers : {<<"pass">>, <<"rewrite", "pass">>}, other : {FALSE}, via : {"InterceptServer"}]
  \cup [fam : {"server"}, carrier : {"registry"}, kind : {"unary", "stream"}, target : {1, 3},
        t : {"nil", "pass", "rewrite"}, t2 : {"nil", "pass", "rewrite"},
        layers : {<<"pass">>, <<"rewrite", "pass">>}, other : {FALSE}, via : {"WithInterceptor"}]

LayerName(i) == IF i = 1 THEN "L1" ELSE IF i = 2 THEN "L2" ELSE "L3"

RECURSIVE Outward(_, _)
\* layers n..1 as a chain
Outward(layers, i) == IF i = 0 THEN <<>> ELSE <<<<LayerName(i), layers[i]>>>> \o Outward(layers, i - 1)

RECURSIVE Inward(_, _)
Inward(layers, i) == IF i > Len(layers) THEN <<>> ELSE <<<<LayerName(i), layers[i]>>>> \o Inward(layers, i + 1)

\* InterceptServer(InterceptServer(d, L1), L2): the layer applied last is
\* outermost.  WithInterceptor(WithInterceptor(reg, L1), L2): registering
\* through the outer view decorates with L2 first and hands the result to the
\* inner view, so L1 ends up outermost.
ServerChain(c) ==
  \* a stream handler called straight from the registry has no transport-level interceptor
  (IF c.carrier = "registry" /\ c.kind = "stream" THEN <<>> ELSE <<<<"T", c.t>>>>)
  \o (IF c.via = "InterceptServer" THEN Outward(c.layers, Len(c.layers)) ELSE Inward(c.layers, 1))

ServerChain2(c) ==
  (IF c.carrier = "registry" /\ c.kind = "stream" THEN <<>> ELSE <<<<"T2", c.t2>>>>)
  \o (IF c.via = "InterceptServer" THEN Outward(c.layers, Len(c.layers)) ELSE Inward(c.layers, 1))

\* does any decoration take place? (InterceptServer returns its argument when
\* both interceptors of a layer are nil)
Decorated(c) == \E i \in 1..Len(c.layers) : c.layers[i] # "nil" \/ c.other

\* o: case fields + word, result, seen / seenreq (the marks each entered
\* element found in its context / in the request it was given), infook (every
\* interceptor saw the right
\* full method name, server and streaming flags), descsame (the original
\* descriptor is deep-equal to a copy taken before), sameptr (an undecorated
\* layer returned its argument itself), panicked
ChkServer(o) ==
  IF o.panicked THEN {"panic"}
  ELSE V(o.word = WordOf(ServerChain(o)), "interceptor-order-or-multiplicity")
       \cup V(o.result = ResultOf(ServerChain(o)), "result-not-passed-through")
       \cup V(o.seen = SeenBy(ServerChain(o), <<>>), "context-not-passed-onward")
       \cup V(o.seenreq = SeenBy(ServerChain(o), <<>>), "request-not-passed-onward")
       \cup V(o.infook, "interceptor-info")
       \cup V(o.descsame, "original-descriptor-modified")
       \cup V(o.sameptr, "undecorated-layer-not-returned-as-is")
       \cup (IF "t2" \in DOMAIN o
             THEN V(o.word2 = WordOf(ServerChain2(o)), "second-carrier-interceptor-order-or-multiplicity")
                  \cup V(o.result2 = ResultOf(ServerChain2(o)), "second-carrier-result-not-passed-through")
             ELSE {})

-----------------------------------------------------------------------------
(* C17: layers[Len] is the outermost wrapper.  A layer is <<unary behaviour,
   stream behaviour>>; only the behaviour for the call's kind matters, but a
   layer with both nil is no wrapper at all. *)
ClientLayer == {<<u, s>> : u \in {"nil", "pass", "short", "fail", "rewrite"}, s \in {"nil", "pass"}}
               \cup {<<u, s>> : u \in {"nil", "pass"}, s \in {"short", "fail", "rewrite"}}
ClientLayers(n) == UNION {[1..k -> ClientLayer] : k \in 0..n}

ClientCases(n) ==
  [fam : {"client"}, base : {"grpc", "inproc", "http"}, kind : {"unary", "stream"}, layers : ClientLayers(n)]

BehOf(layer, kind) == IF kind = "unary" THEN layer[1] ELSE layer[2]

RECURSIVE ClientOutward(_, _, _)
ClientOutward(layers, i, kind) ==
  IF i = 0 THEN <<>> ELSE <<<<LayerName(i), BehOf(layers[i], kind)>>>> \o ClientOutward(layers, i - 1, kind)

ClientChain(c) == ClientOutward(c.layers, Len(c.layers), c.kind)

Wrapping(layer) == layer[1] # "nil" \/ layer[2] # "nil"

\* o: case fields + word, result, seen / seenopt (the marks each entered
\* element found in the outgoing metadata of its context / among the call
\* options it was given; the base channel's service reports the metadata),
\* ccok (every interceptor got the underlying
\* *grpc.ClientConn when the base is one, nil otherwise), argsok (method name,
\* request and options reached the base channel unchanged), unwrapok (Unwrap
\* of each wrapper is the channel it wraps; a layer with both interceptors nil
\* returned its argument), panicked
ChkClient(o) ==
  IF o.panicked THEN {"panic"}
  ELSE V(o.word = WordOf(ClientChain(o)), "interceptor-order-or-multiplicity")
       \cup V(o.result = ResultOf(ClientChain(o)), "result-not-passed-through")
       \cup V(o.seen = SeenBy(ClientChain(o), <<>>), "context-not-passed-onward")
       \* (the base channel's service cannot see option objects: one entry less)
       \cup (LET n == IF o.word # <<>> /\ o.word[Len(o.word)] = "H" THEN Len(o.word) - 1 ELSE Len(o.word) IN
             V(o.seenopt = SubSeq(SeenBy(ClientChain(o), <<>>), 1, n), "options-not-passed-onward"))
       \cup V(o.ccok, "connection-argument")
       \cup V(o.argsok, "arguments-altered")
       \cup V(o.unwrapok, "unwrap")

Chk(o) == IF o.fam = "server" THEN ChkServer(o) ELSE ChkClient(o)
=============================================================================
