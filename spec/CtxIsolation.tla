---------------------------- MODULE CtxIsolation ----------------------------
(***************************************************************************)
(* L2: what an in-process handler's context exposes (C10).  The caller's   *)
(* context is a chain of values: plain application keys, the outgoing      *)
(* metadata for this call, and - when the call is made from inside another *)
(* handler - the enclosing call's incoming metadata, peer and server       *)
(* transport stream.  Visible(k) is the specification: which of them the   *)
(* handler may see, as if the call had crossed a network.                  *)
(***************************************************************************)
EXTENDS Integers, Sequences, FiniteSets

Nestings == {"top", "in-inproc-handler", "in-grpc-handler"}
Cases == [kind : {"unary", "stream"}, interceptor : BOOLEAN, nesting : Nestings, deadline : BOOLEAN]

\* what the handler (and a server interceptor in front of it) observes
Facts == {"plain-string-key-hidden", "plain-struct-key-hidden", "pointer-keys-hidden", "scalar-and-array-keys-hidden",
          "interface-and-channel-keys-hidden", "outgoing-md-not-outgoing-in-handler",
          "incoming-md-is-callers-outgoing", "incoming-md-not-enclosing", "peer-is-inproc",
          "method-is-this-call", "deadline-is-callers", "cancel-follows-caller",
          "clientctx-has-plain-keys", "clientctx-deadline", "handler-md-mutation-invisible-to-caller",
          "caller-md-mutation-invisible-to-handler", "no-deadline-invented"}

V(ok, why) == IF ok THEN {} ELSE {why}
AsSet(s) == {s[i] : i \in DOMAIN s}

\* o: case fields + ran, failed (sequence of facts that did NOT hold, as
\* observed inside the handler and the interceptor), panicked
Chk(o) ==
  IF o.panicked THEN {"panic"}
  ELSE V(o.ran, "handler-did-not-run")
       \cup { f \in AsSet(o.failed) : TRUE }
       \cup V(AsSet(o.failed) \subseteq Facts, "unknown-fact")
=============================================================================
