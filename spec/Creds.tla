-------------------------------- MODULE Creds --------------------------------
(***************************************************************************)
(* L2: per-RPC credentials and peer information (C13).  A case is a        *)
(* configuration; Chk decides what the handler must have seen and what the *)
(* caller's grpc.Peer targets must hold.                                   *)
(* Metadata tokens: the caller attaches k-caller=[c1] and k-both=[c2]      *)
(* ("overlap") or only k-caller=[c1] ("disjoint"); the credential returns  *)
(* k-cred=r1 and k-both=r2 ("ok"), an empty map ("empty") or an error.     *)
(***************************************************************************)
EXTENDS Integers, Sequences, FiniteSets

Cases == [tr : {"http", "inproc"}, scheme : {"http", "https"}, require : BOOLEAN,
          creds : {"none", "ok", "empty", "error"}, callermd : {"none", "disjoint", "overlap"},
          kind : {"unary", "stream"}, peeropt : 0..2,
          \* the handler returns nil / a non-OK status (after it has run: the peer
          \* is known either way)
          outcome : {"ok", "fail"}]

\* in-process channels count as secure; the scheme only matters over HTTP
Secure(c) == c.tr = "inproc" \/ c.scheme = "https"
Refused(c) == c.creds # "none" /\ ((c.require /\ ~Secure(c)) \/ c.creds = "error")

CallerMD(c) == CASE c.callermd = "none" -> {}
                 [] c.callermd = "disjoint" -> {<<"k-caller", <<"c1">>>>}
                 [] OTHER -> {<<"k-caller", <<"c1">>>>, <<"k-both", <<"c2">>>>}

\* metadata.Join(caller, creds): values of the caller first
Expected(c) ==
  IF c.creds # "ok" THEN CallerMD(c)
  ELSE {<<"k-cred", <<"r1">>>>}
       \cup (IF c.callermd = "overlap" THEN {<<"k-caller", <<"c1">>>>, <<"k-both", <<"c2", "r2">>>>}
             ELSE IF c.callermd = "disjoint" THEN {<<"k-caller", <<"c1">>>>, <<"k-both", <<"r2">>>>}
             ELSE {<<"k-both", <<"r2">>>>})

V(ok, why) == IF ok THEN {} ELSE {why}
AsSet(s) == {s[i] : i \in DOMAIN s}

\* o: case fields + err (the call failed), herr (... with the handler's status), requests (HTTP requests issued; -1
\* in-process), ran (handler ran), hmd (handler's incoming metadata on the
\* k-* keys: sequence of <<key, values>>), cpeer (every grpc.Peer target has
\* an address), ctls (every target has TLS auth info), hpeer, htls (same in
\* the handler's context), panicked
Chk(o) ==
  IF o.panicked THEN {"panic"}
  ELSE IF Refused(o) THEN
       V(o.err, "insecure-or-failing-credentials-not-refused")
       \cup V(~o.ran, "handler-ran-despite-refused-credentials")
       \cup V(o.requests <= 0, "request-issued-before-credentials-check")
  ELSE V(o.ran /\ (IF o.outcome = "ok" THEN ~o.err ELSE o.herr), "call-failed-or-wrong-outcome")
       \cup V(AsSet(o.hmd) = Expected(o), "handler-metadata-not-the-join-of-caller-and-credentials")
       \cup V(o.hpeer, "handler-peer-address-missing")
       \cup V(o.peeropt = 0 \/ o.cpeer, "peer-option-address-missing")
       \cup (IF o.tr = "http"
             THEN V(o.htls = (o.scheme = "https"), "handler-tls-info")
                  \cup V(o.peeropt = 0 \/ (o.ctls = (o.scheme = "https")), "peer-option-tls-info")
             ELSE {})
=============================================================================
